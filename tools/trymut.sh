#!/bin/sh
# usage: tools/trymut.sh <patch-file> <Cxx> [tier]   -- applies the patch to /repo, runs the check, reverts.
set -u
P=$1; C=$2; T=${3:-quick}
cd /repo || exit 9
if ! git diff --quiet; then echo "/repo dirty"; exit 9; fi
git apply "$P" || { echo "patch does not apply"; exit 9; }
# the evidence file must keep describing the unchanged tree: save it, restore it afterwards
cp /verif/evidence/$C.json /tmp/.trymut-evidence-$C.json 2>/dev/null
cd /verif && ./vcheck "$C" --tier "$T" 2>&1 | grep -E "^(C[0-9]+ tier|VIOLATION|KNOWN|INCONCLUSIVE|BUILD|  signature)" | head -12
rc=$?
git -C /repo checkout -- . 
[ -f /tmp/.trymut-evidence-$C.json ] && mv /tmp/.trymut-evidence-$C.json /verif/evidence/$C.json
rm -rf /verif/replays/$C/$T-seed${VERIF_SEED:-1}-* 2>/dev/null
git -C /repo status --short | head -3
