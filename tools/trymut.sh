#!/bin/sh
# usage: tools/trymut.sh <patch-file> <Cxx> [tier]   -- applies the patch to /repo, runs the check, reverts.
set -u
P=$1; C=$2; T=${3:-quick}
cd /repo || exit 9
if ! git diff --quiet; then echo "/repo dirty"; exit 9; fi
git apply "$P" || { echo "patch does not apply"; exit 9; }
cd /verif && ./vcheck "$C" --tier "$T" 2>&1 | grep -E "^(C[0-9]+ tier|VIOLATION|KNOWN|INCONCLUSIVE|BUILD|  signature)" | head -12
rc=$?
git -C /repo checkout -- . 
git -C /repo status --short | head -3
