#!/bin/sh
# usage: vp run --with-repo -- tools/seedcheck-snap.sh <seed-id ...>
# Mutation regression on snapshots: applies each kept seeded change to the run's own copy of the repository
# ($VP_RUN_REPO), runs the quick check of its property from the run's own copy of /verif, and restores the copy.
# Several of these can run side by side (tools/seedcheck.sh works on /repo itself and is strictly serial).
cd "$(dirname "$0")/.."
[ -n "${VP_RUN_REPO:-}" ] || { echo "needs vp run --with-repo"; exit 9; }
export VERIF_REPO=$VP_RUN_REPO
caught=0; missed=0; noapply=0
for id in "$@"; do
  prop=$(python3 -c "import json;print(json.load(open('seeded/$id/meta.json'))['property'])")
  if ! git -C "$VP_RUN_REPO" apply "$PWD/seeded/$id/patch.diff" 2>/dev/null; then echo "$id $prop DOES-NOT-APPLY"; noapply=$((noapply+1)); continue; fi
  out=$(./vcheck "$prop" --tier quick 2>&1)
  git -C "$VP_RUN_REPO" checkout -q -- . ; git -C "$VP_RUN_REPO" clean -fdq
  if echo "$out" | grep -q "^VIOLATION"; then
    echo "$id $prop caught: $(echo "$out" | grep '  signature' | sed 's/  signature: //' | sort -u | head -3 | paste -sd' ')"; caught=$((caught+1))
  else
    echo "$id $prop MISSED"; echo "$out" | grep -E "^(BUILD|INCONCLUSIVE|$prop tier)" | head -3; missed=$((missed+1))
  fi
done
echo "caught=$caught missed=$missed does-not-apply=$noapply"
