#!/usr/bin/env python3
import json, sys
pid = sys.argv[1]
rnd = sys.argv[2] if len(sys.argv) > 2 else ""
avoid = sys.argv[3] if len(sys.argv) > 3 else ""
d = "/tmp/seed%s-%s" % (rnd, pid)
avoid_txt = ("\nAn earlier, different exercise already covered this idea, so pick something ELSE (another clause of the property, another code site): " + avoid + "\n") if avoid else ""
p = [json.loads(l) for l in open('/verif/properties.jsonl') if l.strip()]
p = [x for x in p if x['id'] == pid][0]
print(f"""You are working in a scratch git worktree of the Go project flant/shell-operator (a Kubernetes operator runtime that runs shell hooks) at {d}. Do ALL work only inside {d}. Never read, list or write /verif, /repo, or any other /tmp/seed-* directory.

Environment: fully offline sandbox. For every shell command use: `export GOFLAGS=-mod=mod GOPROXY=off` and the plain `go` command (it auto-switches to the cached go1.23.8 toolchain; do NOT set GOSUMDB=off or GOTOOLCHAIN). The full existing suite is `go test -vet=off -count=1 ./...` (about 1 minute).

A semantic property that shell-operator must satisfy:

TITLE: {p['title']}
STATEMENT: {p['statement']}
QUANTIFIED OVER: {p['quantifier']['text']}
CODE ANCHORS: {', '.join(p['anchors']['files'])}

YOUR TASK: produce ONE realistic change to the project's non-test source (a plausible mistake a developer could make: a refactoring slip, an off-by-one, a dropped or narrowed lock, a wrong/inverted condition in a rare branch, reordered statements, a cache not invalidated...) that BREAKS this property, such that:
 1. the project still compiles (`go build ./...`),
 2. the entire existing test suite still passes unchanged (`go test -vet=off -count=1 ./...`), and you do not edit existing tests,
 3. the breakage needs something SPECIFIC to manifest — a particular interleaving, a fault or crash at a particular point, a multi-step sequence of operations, an unusual input, or two cooperating code sites that each look fine alone. It must NOT be something that ordinary use would expose at once (e.g. not "every hook run fails").
{avoid_txt}Do not modify anything under pkg/utils/verifhook, nor pkg/shell-operator/verif_assemble.go, and leave every existing `verifhook.Point(...)` call line in place (they are inert instrumentation).

DELIVERABLES, all inside {d}/_seed/ :
 - patch.diff : `git diff` of your source change only (must apply with `git apply` on a clean checkout of HEAD),
 - a demonstration: a NEW Go test file (give its destination path inside the repo in notes.md; keep a copy in _seed/) or a small program, that FAILS with your change applied and PASSES without it,
 - notes.md : which clause of the property it breaks, exactly what is needed for it to manifest, and the commands you ran with their (abridged) outputs.
VERIFY YOURSELF before finishing: (a) with the patch applied: build ok, full suite passes, demonstration fails; (b) without the patch: demonstration passes.
Finally restore the worktree to a clean HEAD checkout (`git checkout -- .` and remove the demonstration file from the tree) so that only the untracked directory _seed/ remains. Reply with a 5-line summary (files changed, what breaks, what triggers it).""")
