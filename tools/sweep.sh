#!/bin/sh
# usage: tools/sweep.sh "<props>" "<seeds>" [tier]  -- runs checks, prints one line per run, lists alarms at the end
PROPS=${1:-"C03 C04 C05 C06 C07 C10 C13 C15 C16 C17 C18 C19 C20"}; SEEDS=${2:-"1 2 3"}; TIER=${3:-quick}
cd "$(dirname "$0")/.."
[ -n "${VP_RUN_REPO:-}" ] && export VERIF_REPO=$VP_RUN_REPO
bad=""
for p in $PROPS; do for s in $SEEDS; do
  out=$(VERIF_SEED=$s ./vcheck $p --tier $TIER 2>&1); rc=$?
  echo "$out" | grep -E "^$p tier" 
  if [ $rc -ne 0 ]; then bad="$bad $p/seed$s(rc=$rc)"; echo "$out" | grep -E "^(VIOLATION|  signature|INCONCLUSIVE|BUILD)" | head -6; fi
done; done
echo "ALARMS:$bad"
