#!/usr/bin/env python3
"""Regenerates MANIFEST.json from checks.json (+ not_applicable.json)."""
import json, os, subprocess
V = os.path.dirname(os.path.dirname(os.path.abspath(__file__)))
checks = json.load(open(os.path.join(V, "checks.json")))
props = [json.loads(l) for l in open(os.path.join(V, "properties.jsonl")) if l.strip()]
na_path = os.path.join(V, "not_applicable.json")
na = json.load(open(na_path)) if os.path.exists(na_path) else {}
commits = subprocess.run(["git", "-C", "/repo", "log", "--format=%H %s", "f6e4fdf..HEAD"], capture_output=True, text=True).stdout.strip().splitlines()
hook_commits = [c.split()[0] for c in commits if c.split(" ", 1)[1].startswith("verif:")]
m = {
 "version": 1,
 "setup_cmd": "./setup.sh",
 "hooks": {
  "guard": "verif (Go build tag)",
  "enable": "harness binaries are built with `go1.26.8 test -c -tags verif [-race] ./checks` in /verif/harness (module replace => /repo); pkg/utils/verifhook.Point is an empty function without the tag",
  "baseline_off_cmd": "cd /repo && GOFLAGS=-mod=mod GOPROXY=off go test -json -vet=off -count=1 -timeout 25m ./...",
  "source_commits": hook_commits,
  "add_only": True,
 },
 "engines": [
  {"name": "vcheck", "path": "vcheck", "serves_properties": sorted(checks), "kind_free_text": "driver: builds the Go monitors from /repo's working tree, runs them in up to 16 worker processes, aggregates JSONL verdicts, matches known_findings.jsonl, writes evidence"},
  {"name": "harness", "path": "harness", "serves_properties": sorted(checks), "kind_free_text": "Go test package with one monitor per property: generated workloads, reference-model oracles, virtual time (testing/synctest), rendezvous points (build tag verif), race detector, porcupine"},
 ],
 "checks": [],
 "notes": "Runtime monitoring only. Verdicts: exit 0 held / exit 1 VIOLATION / exit 3 inconclusive (watchdog or nothing observed). Known findings: known_findings.jsonl.",
 "not_applicable": [],
}
for p in props:
    pid = p["id"]
    if pid in checks:
        c = checks[pid]
        m["checks"].append({
            "property_id": pid,
            "quick_cmd": "./vcheck %s --tier quick" % pid,
            "thorough_cmd": "./vcheck %s --tier thorough" % pid,
            "evidence_file": "/verif/evidence/%s.json" % pid,
            "replay_cmd_template": "./vcheck %s --replay {path}" % pid,
            "engine": "vcheck",
            "level_claimed": {"category": c["level"], "text": c.get("level_text", c.get("rule", "")), "design_ref": "DESIGN.md §5 " + pid},
            "level_note": "; ".join(c.get("assumptions", [])) or "see DESIGN.md",
            "technique": c.get("technique", "runtime monitoring"),
        })
    else:
        m["not_applicable"].append({"property_id": pid, "reason": na.get(pid, "monitor not built yet in this session; see DESIGN.md")})
json.dump(m, open(os.path.join(V, "MANIFEST.json"), "w"), indent=1)
print("checks:", len(m["checks"]), "not_applicable:", len(m["not_applicable"]))
