#!/bin/sh
# usage: tools/confirmseed.sh <worktree> <demo-src> <demo-dest-relative> <test-regex> <pkg>
# Confirms a seeded change in its scratch worktree: with patch -> build ok, suite passes, demo fails; without -> demo passes.
set -u
W=$1; DEMO=$2; DEST=$3; RX=$4; PKG=$5
export GOFLAGS=-mod=mod GOPROXY=off
cd "$W" || exit 9
git checkout -q -- . ; rm -f "$DEST"
git apply _seed/patch.diff || { echo "APPLY FAILED"; exit 1; }
go build ./... || { echo "BUILD FAILED"; git checkout -q -- .; exit 1; }
if go test -vet=off -count=1 ./... > /tmp/confirm-suite.log 2>&1; then echo "with patch: suite PASSES"; else echo "with patch: suite FAILS"; grep -E "^(FAIL|---)" /tmp/confirm-suite.log | head; fi
cp "$DEMO" "$DEST"
if go test -vet=off -count=1 -run "$RX" "$PKG" > /tmp/confirm-demo1.log 2>&1; then echo "with patch: demo PASSES (bad)"; else echo "with patch: demo FAILS (good)"; fi
git checkout -q -- .
if go test -vet=off -count=3 -run "$RX" "$PKG" > /tmp/confirm-demo2.log 2>&1; then echo "without patch: demo PASSES (good)"; else echo "without patch: demo FAILS (bad)"; tail -5 /tmp/confirm-demo2.log; fi
rm -f "$DEST"
git status --short
