#!/bin/sh
# usage: tools/keepseed.sh <seed-id> <property> <worktree> "<needs>" "<ran>" "<caught-by>"
set -e
ID=$1; P=$2; W=$3; NEEDS=$4; RAN=$5; CAUGHT=$6
D=/verif/seeded/$ID
mkdir -p $D
cp $W/_seed/* $D/
python3 - "$ID" "$P" "$NEEDS" "$RAN" "$CAUGHT" <<'PY'
import json,sys
id_,p,needs,ran,caught=sys.argv[1:6]
json.dump({"id":id_,"property":p,"breaks":p,"needs_to_manifest":needs,"confirmed_by":ran,"caught_by":caught},open(f"/verif/seeded/{id_}/meta.json","w"),indent=1)
PY
ls $D
