#!/bin/sh
# usage: tools/seedcheck.sh [seed-id ...]   -- mutation regression: applies every kept seeded change to /repo in turn,
# runs the quick check of its property and reports whether it is (still) caught. /repo is restored after each.
cd /verif || exit 9
ids="$*"; [ -z "$ids" ] && ids=$(ls seeded)
caught=0; missed=0; noapply=0
for id in $ids; do
  prop=$(python3 -c "import json;print(json.load(open('/verif/seeded/$id/meta.json'))['property'])")
  if ! git -C /repo apply --check /verif/seeded/$id/patch.diff 2>/dev/null; then echo "$id $prop DOES-NOT-APPLY"; noapply=$((noapply+1)); continue; fi
  out=$(tools/trymut.sh /verif/seeded/$id/patch.diff $prop 2>&1)
  if echo "$out" | grep -q "^VIOLATION"; then
    echo "$id $prop caught: $(echo "$out" | grep '  signature' | sed 's/  signature: //' | sort -u | head -3 | paste -sd' ')"; caught=$((caught+1))
  else
    if grep -q open_miss /verif/seeded/$id/meta.json; then echo "$id $prop missed (recorded as an open miss)"; else echo "$id $prop MISSED"; fi; missed=$((missed+1))
  fi
done
echo "caught=$caught missed=$missed does-not-apply=$noapply"
