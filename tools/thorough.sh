#!/bin/sh
# runs every check's thorough tier once (seed from $1, default 1); meant for `vp run --with-repo -- tools/thorough.sh <seed> [Cxx ...]` (--with-repo: the run gets its own snapshot of /repo, so that seeded changes tried in /repo meanwhile do not leak into it)
cd "$(dirname "$0")/.."
[ -n "${VP_RUN_REPO:-}" ] && export VERIF_REPO=$VP_RUN_REPO
S=${1:-1}
[ $# -gt 0 ] && shift
PROPS=${*:-C01 C02 C03 C04 C05 C06 C07 C08 C09 C10 C11 C12 C13 C14 C15 C16 C17 C18 C19 C20}
for p in $PROPS; do
  start=$(date +%s)
  VERIF_SEED=$S ./vcheck $p --tier thorough > /tmp/thorough-$p.$$ 2>&1; rc=$?
  grep -E "^$p tier" /tmp/thorough-$p.$$
  [ $rc -ne 0 ] && grep -E "^(VIOLATION|  signature|INCONCLUSIVE|BUILD)" /tmp/thorough-$p.$$ | head -8
  echo "   rc=$rc wall=$(( $(date +%s) - start ))s"
  rm -f /tmp/thorough-$p.$$
done
