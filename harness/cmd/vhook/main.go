package main

func main() {}
