// vhook is the hook agent of the runtime monitors: the process boundary at which
// the harness observes what shell-operator hands to a user's hook.
//
// Generated hook files are tiny sh wrappers: exec vhook "$0" "$@".
// Everything is driven by files under $VHOOK_DIR:
//
//	root                      absolute path of the hooks directory
//	config/<key>.out|.exit    what to print / exit with on --config
//	plan/<key>/<n>.json       directive of the n-th normal execution (default.json as fallback)
//	seq/<key>.<n>             created with O_EXCL to number executions
//	exec/<key>.<n>.ctx        raw copy of the binding context file
//	log.jsonl                 one line per invocation (config / begin / end)
package main

import (
	"encoding/json"
	"fmt"
	"os"
	"path/filepath"
	"sort"
	"strings"
	"syscall"
	"time"
	"unsafe"

	"verif/harness/vhk"
)

func monoNs() int64 {
	var ts syscall.Timespec
	// CLOCK_MONOTONIC = 1: system-wide, comparable between processes.
	_, _, _ = syscall.Syscall(syscall.SYS_CLOCK_GETTIME, 1, uintptr(unsafe.Pointer(&ts)), 0)
	return ts.Sec*1e9 + ts.Nsec
}

func appendLog(dir string, rec map[string]any) {
	b, _ := json.Marshal(rec)
	f, err := os.OpenFile(filepath.Join(dir, "log.jsonl"), os.O_CREATE|os.O_WRONLY|os.O_APPEND, 0o644)
	if err != nil {
		return
	}
	_, _ = f.Write(append(b, '\n'))
	_ = f.Close()
}

func main() {
	dir := os.Getenv("VHOOK_DIR")
	if dir == "" || len(os.Args) < 2 {
		fmt.Fprintln(os.Stderr, "vhook: VHOOK_DIR not set")
		os.Exit(97)
	}
	hookPath := os.Args[1]
	args := os.Args[2:]
	rootB, _ := os.ReadFile(filepath.Join(dir, "root"))
	root := strings.TrimSpace(string(rootB))
	abs := hookPath
	if !filepath.IsAbs(abs) {
		wd, _ := os.Getwd()
		abs = filepath.Join(wd, abs)
	}
	rel, err := filepath.Rel(root, abs)
	if err != nil {
		rel = abs
	}
	key := vhk.Key(rel)
	cwd, _ := os.Getwd()

	if len(args) > 0 && args[0] == "--config" {
		appendLog(dir, map[string]any{"kind": "config", "hook": rel, "pid": os.Getpid(), "cwd": cwd, "argv": args, "mono": monoNs()})
		out, _ := os.ReadFile(filepath.Join(dir, "config", key+".out"))
		_, _ = os.Stdout.Write(out)
		code := 0
		if b, err := os.ReadFile(filepath.Join(dir, "config", key+".exit")); err == nil {
			fmt.Sscanf(strings.TrimSpace(string(b)), "%d", &code)
		}
		os.Exit(code)
	}

	// number this execution
	n := 0
	for ; n < 100000; n++ {
		f, err := os.OpenFile(filepath.Join(dir, "seq", fmt.Sprintf("%s.%d", key, n)), os.O_CREATE|os.O_EXCL|os.O_WRONLY, 0o644)
		if err == nil {
			_ = f.Close()
			break
		}
	}
	start := monoNs()
	envNames := []string{"BINDING_CONTEXT_PATH", "METRICS_PATH", "KUBERNETES_PATCH_PATH", "ADMISSION_RESPONSE_PATH", "VALIDATING_RESPONSE_PATH", "CONVERSION_RESPONSE_PATH"}
	envs := map[string]string{}
	sizes := map[string]int64{}
	for _, e := range envNames {
		v, ok := os.LookupEnv(e)
		if !ok {
			continue
		}
		envs[e] = v
		if st, err := os.Stat(v); err == nil {
			sizes[e] = st.Size()
		} else {
			sizes[e] = -1
		}
	}
	ctxBytes, ctxErr := os.ReadFile(envs["BINDING_CONTEXT_PATH"])
	ctxFile := filepath.Join(dir, "exec", fmt.Sprintf("%s.%d.ctx", key, n))
	_ = os.WriteFile(ctxFile, ctxBytes, 0o644)
	var tmpListing []string
	if p := envs["BINDING_CONTEXT_PATH"]; p != "" {
		if ents, err := os.ReadDir(filepath.Dir(p)); err == nil {
			for _, e := range ents {
				tmpListing = append(tmpListing, e.Name())
			}
			sort.Strings(tmpListing)
		}
	}
	rec := map[string]any{"kind": "begin", "hook": rel, "n": n, "pid": os.Getpid(), "cwd": cwd, "argv": args, "env": envs, "sizes": sizes,
		"ctx_file": ctxFile, "tmp_listing": tmpListing, "start_mono": start}
	if ctxErr != nil {
		rec["ctx_err"] = ctxErr.Error()
	}
	appendLog(dir, rec)

	var d vhk.Directive
	b, err := os.ReadFile(filepath.Join(dir, "plan", key, fmt.Sprintf("%d.json", n)))
	if err != nil {
		b, err = os.ReadFile(filepath.Join(dir, "plan", key, "default.json"))
	}
	if err == nil {
		_ = json.Unmarshal(b, &d)
	}
	if d.SleepMs > 0 {
		time.Sleep(time.Duration(d.SleepMs) * time.Millisecond)
	}
	write := func(env, content string) {
		if content == "" || envs[env] == "" {
			return
		}
		_ = os.WriteFile(envs[env], []byte(content), 0o644)
	}
	write("METRICS_PATH", d.Metrics)
	write("KUBERNETES_PATCH_PATH", d.Patch)
	write("ADMISSION_RESPONSE_PATH", d.Admission)
	if strings.HasPrefix(d.Conversion, "@convert") {
		write("CONVERSION_RESPONSE_PATH", convert(ctxBytes, rel, d.Conversion == "@convert-drop-one", d.Conversion == "@convert-and-failed-message"))
	} else {
		write("CONVERSION_RESPONSE_PATH", d.Conversion)
	}
	if d.Stdout != "" {
		fmt.Print(d.Stdout)
	}
	if d.SleepAfterMs > 0 {
		time.Sleep(time.Duration(d.SleepAfterMs) * time.Millisecond)
	}
	appendLog(dir, map[string]any{"kind": "end", "hook": rel, "n": n, "pid": os.Getpid(), "end_mono": monoNs(), "exit": d.Exit, "kill": d.Kill})
	if d.Kill {
		_ = syscall.Kill(os.Getpid(), syscall.SIGKILL)
		time.Sleep(time.Second)
	}
	os.Exit(d.Exit)
}

// convert turns every object of the first context's review request into
// toVersion and appends "<hook>:<from>-><to>" to the annotation verif/trail.
func convert(ctx []byte, hook string, dropOne bool, alsoFailed bool) string {
	var contexts []map[string]any
	if err := json.Unmarshal(ctx, &contexts); err != nil || len(contexts) == 0 {
		return `{"failedMessage":"vhook: cannot parse context"}`
	}
	c := contexts[0]
	to, _ := c["toVersion"].(string)
	from, _ := c["fromVersion"].(string)
	review, _ := c["review"].(map[string]any)
	req, _ := review["request"].(map[string]any)
	// the last step of a chain produces the spelling the API server asked for
	if desired, _ := req["desiredAPIVersion"].(string); desired != "" && sameVersion(desired, to) {
		to = desired
	}
	objs, _ := req["objects"].([]any)
	var out []any
	for i, o := range objs {
		if dropOne && i == 0 {
			continue
		}
		m, ok := o.(map[string]any)
		if !ok {
			continue
		}
		m["apiVersion"] = to
		md, _ := m["metadata"].(map[string]any)
		if md == nil {
			md = map[string]any{}
			m["metadata"] = md
		}
		an, _ := md["annotations"].(map[string]any)
		if an == nil {
			an = map[string]any{}
			md["annotations"] = an
		}
		trail, _ := an["verif/trail"].(string)
		if trail != "" {
			trail += ","
		}
		an["verif/trail"] = trail + hook + ":" + from + "->" + to
		out = append(out, m)
	}
	resp := map[string]any{"convertedObjects": out}
	if alsoFailed {
		// the hook converted the objects and nevertheless reports a failure
		resp["failedMessage"] = "converted, but " + hook + " says no"
	}
	b, _ := json.Marshal(resp)
	return string(b)
}

func sameVersion(a, b string) bool {
	if a == b {
		return true
	}
	ia, ib := strings.IndexByte(a, '/'), strings.IndexByte(b, '/')
	if ia < 0 && ib >= 0 {
		return a == b[ib+1:]
	}
	if ia >= 0 && ib < 0 {
		return a[ia+1:] == b
	}
	return false
}
