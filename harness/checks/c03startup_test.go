package checks

// C03, start-up part — the main queue is one queue also while the operator is
// still starting: the Synchronization run of the alphabetically last hook is
// parked inside its handler (main queue), meanwhile ticks and objects arrive
// for main-queue bindings of hooks that are already enabled. Nothing of queue
// "main" may be handled before the parked handler returns (one task at a time
// per named queue); other queues go on; afterwards everything is delivered in
// arrival order.

import (
	"fmt"
	"strings"
	"testing"
	"testing/synctest"
	"time"

	"verif/harness/vlib"
)

func TestC03Startup(t *testing.T) {
	e := vlib.GetEnv()
	n := e.Pick(16, 1500)
	vlib.RunCases(t, "C03", "startup", n, func(c *vlib.Case) vlib.Result {
		var res vlib.Result
		rng := c.Rng
		hs := vlib.NewHookSet(c.Dir, "hooks")
		nA := 2 + rng.IntN(3)
		type bnd struct{ Hook, Name, Cron, Queue string }
		var binds []bnd
		for i := 0; i < nA; i++ {
			hook := fmt.Sprintf("a%d", i)
			var sch []any
			for b := 0; b < 1+rng.IntN(2); b++ {
				bd := bnd{Hook: hook, Name: fmt.Sprintf("%s-s%d", hook, b), Cron: fmt.Sprintf("%d 5 5 5 *", 10+len(binds)), Queue: []string{"", "", "qx"}[rng.IntN(3)]}
				d := m{"name": bd.Name, "crontab": bd.Cron}
				if bd.Queue != "" {
					d["queue"] = bd.Queue
				}
				sch = append(sch, d)
				binds = append(binds, bd)
			}
			hs.AddHook(hook, 0o755, cfgJSON(m{"configVersion": "v1", "schedule": sch}))
		}
		hs.AddHook("z-sync", 0o755, cfgJSON(m{"configVersion": "v1", "kubernetes": []any{m{"name": "k", "apiVersion": "v1", "kind": "ConfigMap"}}}))
		var log []vlib.PointEvent
		var parkSeq, releaseSeq int64
		var injected []string
		inBubble(c, func(t *testing.T) {
			sys, err := vlib.NewSys(hs, nil)
			if err != nil {
				res.Inconclusive = "assemble: " + err.Error()
				sys.StopNow()
				return
			}
			defer sys.Stop()
			sys.Pts.Record("q.handler.enter", "q.handler.exit")
			gate := vlib.NewGate()
			defer gate.Release()
			sys.Pts.On("op.afterHookRun", func(ev vlib.PointEvent) {
				if ev.Args[0].(string) == "z-sync" && ev.Args[3].(bool) {
					gate.Park()
				}
			})
			sys.Start()
			if !waitHit(sys, gate) {
				res.Inconclusive = "the Synchronization rendezvous did not arm"
				return
			}
			parkSeq = sys.Pts.NextSeq()
			for i := 0; i < 4+rng.IntN(12); i++ {
				b := binds[rng.IntN(len(binds))]
				tick(sys, b.Cron)
				injected = append(injected, b.Name+"->"+map[bool]string{true: "main", false: b.Queue}[b.Queue == ""])
				if rng.IntN(3) == 0 {
					synctest.Wait()
				}
			}
			sys.Advance(3 * time.Second)
			releaseSeq = sys.Pts.NextSeq()
			gate.Release()
			if !sys.Settle(200) {
				res.Inconclusive = "did not settle"
			}
			log = sys.Pts.Log()
		})
		if res.Inconclusive != "" {
			return res
		}
		desc := fmt.Sprintf("Synchronization of z-sync parked inside its handler (queue main); triggers injected meanwhile: %s", strings.Join(injected, " "))
		during := 0
		for _, ev := range log {
			if ev.Name == "q.handler.enter" && ev.Args[0].(string) == "main" && ev.Seq > parkSeq && ev.Seq < releaseSeq {
				during++
			}
		}
		if during > 0 {
			res.Violate("startup/main-handled-while-main-handler-in-flight", "%d handler(s) of queue main were entered while the Synchronization handler of queue main had not returned\n%s", during, desc)
		}
		ivs := handlerIntervals(log)
		lastExit := map[string]int64{}
		for _, iv := range ivs {
			if prev, ok := lastExit[iv.Queue]; ok && iv.EnterSeq < prev {
				res.Violate("startup/handlers-overlap", "queue %s: handler entered at seq %d before the previous one exited at %d\n%s", iv.Queue, iv.EnterSeq, prev, desc)
			}
			if iv.ExitSeq != 0 {
				lastExit[iv.Queue] = iv.ExitSeq
			} else {
				lastExit[iv.Queue] = 1 << 62
			}
		}
		// everything injected is delivered, per queue in arrival order
		got := map[string][]string{}
		for _, ex := range hs.Executions() {
			for _, cx := range ex.Contexts {
				bn := fmt.Sprint(cx["binding"])
				for _, b := range binds {
					if b.Name == bn {
						q := b.Queue
						if q == "" {
							q = "main"
						}
						got[q] = append(got[q], bn)
					}
				}
			}
		}
		want := map[string][]string{}
		for _, in := range injected {
			p := strings.SplitN(in, "->", 2)
			want[p[1]] = append(want[p[1]], p[0])
		}
		for q, w := range want {
			if strings.Join(got[q], " ") != strings.Join(w, " ") {
				res.Violate("startup/not-fifo-or-lost", "queue %s delivered %v, arrival order was %v\n%s", q, got[q], w, desc)
			}
		}
		res.Count("startup_triggers_injected", int64(len(injected)))
		res.Key = fmt.Sprintf("a%d-b%d-inj%d", nA, len(binds), len(injected))
		if c.Index < 2 {
			res.Sample = m{"case": desc}
		}
		res.Replay = m{"case": desc}
		return res
	})
}
