package checks

// C05 — the task queue is a faithful list.
//
// Three monitors:
//   seq   : every public operation is mirrored on a reference slice; after each
//           operation the full content (Iterate), Length, GetFirst, GetLast, Get
//           are compared. Exhaustive for short sequences + seeded random ones.
//   loop  : the real worker loop (Start) runs a scripted handler in virtual
//           time; at every handler entry the content must equal the reference
//           after applying the previous result.
//   conc  : concurrent producers/consumers, history checked with porcupine
//           against a sequential list model.

import (
	"context"
	"fmt"
	"strings"
	"sync"
	"sync/atomic"
	"testing"
	"testing/synctest"
	"time"

	"github.com/anishathalye/porcupine"

	"github.com/flant/shell-operator/pkg/task"
	"github.com/flant/shell-operator/pkg/task/queue"

	"verif/harness/vlib"
)

type c5item struct {
	uid int
	id  string
}

type c5task struct {
	*task.BaseTask
	uid int
}

func c5new(uid int, id string) *c5task {
	bt := task.NewTask("T")
	bt.Id = id
	return &c5task{BaseTask: bt, uid: uid}
}

func c5uid(t task.Task) int {
	if t == nil {
		return -1
	}
	if ct, ok := t.(*c5task); ok {
		if ct == nil {
			return -1
		}
		return ct.uid
	}
	return -2
}

type c5op struct {
	Kind string // AddFirst AddLast AddAfter AddBefore Remove RemoveFirst RemoveLast Filter
	ID   string // target id for by-id ops
	New  string // id of the new task
}

func (o c5op) String() string {
	switch o.Kind {
	case "AddFirst", "AddLast":
		return fmt.Sprintf("%s(%s)", o.Kind, o.New)
	case "AddAfter", "AddBefore":
		return fmt.Sprintf("%s(%s,%s)", o.Kind, o.ID, o.New)
	case "Remove":
		return fmt.Sprintf("Remove(%s)", o.ID)
	}
	return o.Kind
}

type c5mirror struct {
	q    *queue.TaskQueue
	ref  []c5item
	next int
	// coverage
	presentOps, absentOps, dupOps int
	// what an insertion relative to an absent id did the first time it was seen on this queue
	// ("" = not seen yet, "inserted", "ignored"); whatever it is, AddAfter and AddBefore must agree
	absentInsert   string
	absentInsertOp string
}

func c5content(q *queue.TaskQueue) []int {
	var res []int
	q.Iterate(func(t task.Task) { res = append(res, c5uid(t)) })
	return res
}

func c5refUids(ref []c5item) []int {
	res := make([]int, len(ref))
	for i, it := range ref {
		res[i] = it.uid
	}
	return res
}

func eqInts(a, b []int) bool {
	if len(a) != len(b) {
		return false
	}
	for i := range a {
		if a[i] != b[i] {
			return false
		}
	}
	return true
}

func insertAt(ref []c5item, pos int, it c5item) []c5item {
	res := make([]c5item, 0, len(ref)+1)
	res = append(res, ref[:pos]...)
	res = append(res, it)
	res = append(res, ref[pos:]...)
	return res
}

func removeAt(ref []c5item, pos int) []c5item {
	res := make([]c5item, 0, len(ref))
	res = append(res, ref[:pos]...)
	res = append(res, ref[pos+1:]...)
	return res
}

// apply runs one op on the real queue and on the reference. It returns a
// (signature, detail) pair on disagreement.
func (m *c5mirror) apply(o c5op) (string, string) {
	var matches []int
	for i, it := range m.ref {
		if it.id == o.ID {
			matches = append(matches, i)
		}
	}
	byID := o.Kind == "AddAfter" || o.Kind == "AddBefore" || o.Kind == "Remove"
	if byID && len(matches) > 1 {
		// Several tasks carry the id. Which of them "the task with that id" is, the statement does not say;
		// but every id-addressed operation must mean the same one: the task Get(id) returns.
		if g := m.q.Get(o.ID); g != nil {
			gu := c5uid(g)
			for _, p := range matches {
				if m.ref[p].uid == gu {
					matches = []int{p}
					m.dupOps++
					break
				}
			}
		}
	}
	if byID {
		switch {
		case len(matches) == 0:
			m.absentOps++
		case len(matches) == 1:
			m.presentOps++
		default:
			m.dupOps++
		}
	}
	var nt *c5task
	if o.New != "" {
		nt = c5new(m.next, o.New)
		m.next++
	}
	var candidates [][]c5item
	weakAbsentInsert := false
	var retUID = -3 // -3: no return value to check
	var retCandidates []int
	switch o.Kind {
	case "AddFirst":
		m.q.AddFirst(nt)
		candidates = [][]c5item{insertAt(m.ref, 0, c5item{nt.uid, nt.Id})}
	case "AddLast":
		m.q.AddLast(nt)
		candidates = [][]c5item{insertAt(m.ref, len(m.ref), c5item{nt.uid, nt.Id})}
	case "AddAfter":
		m.q.AddAfter(o.ID, nt)
		for _, p := range matches {
			candidates = append(candidates, insertAt(m.ref, p+1, c5item{nt.uid, nt.Id}))
		}
		weakAbsentInsert = len(matches) == 0
	case "AddBefore":
		m.q.AddBefore(o.ID, nt)
		for _, p := range matches {
			candidates = append(candidates, insertAt(m.ref, p, c5item{nt.uid, nt.Id}))
		}
		weakAbsentInsert = len(matches) == 0
	case "Remove":
		r := m.q.Remove(o.ID)
		retUID = c5uid(r)
		if len(matches) == 0 {
			candidates = [][]c5item{m.ref}
			retCandidates = []int{-1}
		}
		for _, p := range matches {
			candidates = append(candidates, removeAt(m.ref, p))
			retCandidates = append(retCandidates, m.ref[p].uid)
		}
	case "RemoveFirst":
		r := m.q.RemoveFirst()
		retUID = c5uid(r)
		if len(m.ref) == 0 {
			candidates = [][]c5item{m.ref}
			retCandidates = []int{-1}
		} else {
			candidates = [][]c5item{removeAt(m.ref, 0)}
			retCandidates = []int{m.ref[0].uid}
		}
	case "RemoveLast":
		r := m.q.RemoveLast()
		retUID = c5uid(r)
		if len(m.ref) == 0 {
			candidates = [][]c5item{m.ref}
			retCandidates = []int{-1}
		} else {
			candidates = [][]c5item{removeAt(m.ref, len(m.ref)-1)}
			retCandidates = []int{m.ref[len(m.ref)-1].uid}
		}
	case "Filter":
		m.q.Filter(func(t task.Task) bool { return c5uid(t)%2 == 1 })
		var kept []c5item
		for _, it := range m.ref {
			if it.uid%2 == 1 {
				kept = append(kept, it)
			}
		}
		candidates = [][]c5item{kept}
	}

	actual := c5content(m.q)
	for _, u := range actual {
		if u == -1 {
			return "empty-slot/" + o.Kind + absentSuffix(byID, matches), fmt.Sprintf("after %s the queue contains an empty slot: %v (reference before op: %v)", o, actual, c5refUids(m.ref))
		}
	}
	if l := m.q.Length(); l != len(actual) {
		return "length/" + o.Kind, fmt.Sprintf("after %s Length()=%d but Iterate yields %d tasks", o, l, len(actual))
	}
	if weakAbsentInsert {
		// The statement does not fix where (or whether) the new task goes when the
		// id is absent. Unconditional clauses only: the other tasks keep their
		// order, the new task occurs at most once.
		var others []int
		occ := 0
		for _, u := range actual {
			if u == nt.uid {
				occ++
				continue
			}
			others = append(others, u)
		}
		if occ > 1 {
			return "duplicated/" + o.Kind + "/absent-id", fmt.Sprintf("after %s the new task occurs %d times: %v", o, occ, actual)
		}
		if !eqInts(others, c5refUids(m.ref)) {
			return "others-changed/" + o.Kind + "/absent-id", fmt.Sprintf("after %s the other tasks changed: got %v want %v", o, others, c5refUids(m.ref))
		}
		mode := "ignored"
		if occ == 1 {
			mode = "inserted"
		}
		if m.absentInsert == "" {
			m.absentInsert, m.absentInsertOp = mode, o.Kind
		} else if m.absentInsert != mode {
			return "absent-id-treated-inconsistently", fmt.Sprintf("%s with an id that is not in the queue: the new task was %s, whereas %s with an absent id had %s it before (queue %v)", o, mode, m.absentInsertOp, m.absentInsert, actual)
		}
		// adopt
		nref := make([]c5item, 0, len(actual))
		for _, u := range actual {
			if u == nt.uid {
				nref = append(nref, c5item{nt.uid, nt.Id})
				continue
			}
			for _, it := range m.ref {
				if it.uid == u {
					nref = append(nref, it)
					break
				}
			}
		}
		m.ref = nref
	} else {
		ok := -1
		for ci, c := range candidates {
			if eqInts(actual, c5refUids(c)) {
				if retUID != -3 && retCandidates[ci] != retUID {
					continue
				}
				ok = ci
				break
			}
		}
		if ok < 0 {
			var cs []string
			for _, c := range candidates {
				cs = append(cs, fmt.Sprint(c5refUids(c)))
			}
			return "content/" + o.Kind, fmt.Sprintf("after %s: queue=%v returned-uid=%d, an ordinary list would hold one of %s (returning %v); before: %v", o, actual, retUID, strings.Join(cs, " | "), retCandidates, c5refUids(m.ref))
		}
		m.ref = candidates[ok]
	}
	// accessors
	first, last := -1, -1
	if len(m.ref) > 0 {
		first, last = m.ref[0].uid, m.ref[len(m.ref)-1].uid
	}
	if g := c5uid(m.q.GetFirst()); g != first {
		return "getfirst/" + o.Kind, fmt.Sprintf("after %s GetFirst()=uid %d want %d", o, g, first)
	}
	if g := c5uid(m.q.GetLast()); g != last {
		return "getlast/" + o.Kind, fmt.Sprintf("after %s GetLast()=uid %d want %d", o, g, last)
	}
	if m.q.IsEmpty() != (len(m.ref) == 0) {
		return "isempty/" + o.Kind, fmt.Sprintf("after %s IsEmpty()=%v with %d tasks", o, m.q.IsEmpty(), len(m.ref))
	}
	// Get for every known id and one absent id.
	ids := map[string][]int{}
	for _, it := range m.ref {
		ids[it.id] = append(ids[it.id], it.uid)
	}
	for id, uids := range ids {
		g := c5uid(m.q.Get(id))
		found := false
		for _, u := range uids {
			if u == g {
				found = true
			}
		}
		if !found {
			return "get/" + o.Kind, fmt.Sprintf("after %s Get(%s)=uid %d, want one of %v", o, id, g, uids)
		}
	}
	if g := m.q.Get("never-present"); g != nil {
		return "get-absent/" + o.Kind, fmt.Sprintf("after %s Get(absent) returned uid %d", o, c5uid(g))
	}
	return "", ""
}

func absentSuffix(byID bool, matches []int) string {
	if byID && len(matches) == 0 {
		return "/absent-id"
	}
	return ""
}

func c5alphabet(ids []string, news []string, absent string) []c5op {
	var ops []c5op
	for _, n := range news {
		ops = append(ops, c5op{Kind: "AddFirst", New: n}, c5op{Kind: "AddLast", New: n})
	}
	for _, id := range append(append([]string{}, ids...), absent) {
		for _, n := range news {
			ops = append(ops, c5op{Kind: "AddAfter", ID: id, New: n}, c5op{Kind: "AddBefore", ID: id, New: n})
		}
		ops = append(ops, c5op{Kind: "Remove", ID: id})
	}
	ops = append(ops, c5op{Kind: "RemoveFirst"}, c5op{Kind: "RemoveLast"}, c5op{Kind: "Filter"})
	return ops
}

func c5runSeq(res *vlib.Result, ops []c5op) bool {
	m := &c5mirror{q: queue.NewTasksQueue()}
	defer func() {
		res.Count("ops_on_present_id", int64(m.presentOps))
		res.Count("ops_on_absent_id", int64(m.absentOps))
		res.Count("ops_on_duplicated_id", int64(m.dupOps))
	}()
	for i, o := range ops {
		var sig, detail string
		func() {
			defer func() {
				if r := recover(); r != nil {
					sig, detail = "panic/"+o.Kind, fmt.Sprintf("panic: %v", r)
				}
			}()
			sig, detail = m.apply(o)
		}()
		res.Count("operations_checked", 1)
		if sig != "" {
			res.Violate("seq/"+sig, "sequence %v, step %d: %s", ops[:i+1], i, detail)
			return false
		}
	}
	return true
}

func TestC05Seq(t *testing.T) {
	e := vlib.GetEnv()
	alpha := c5alphabet([]string{"a", "b"}, []string{"a", "b"}, "zz")
	depth := e.Pick(4, 5)
	// exhaustive: one case per 2-op prefix
	nPrefix := len(alpha) * len(alpha)
	vlib.RunCases(t, "C05", "seq-exhaustive", nPrefix, func(c *vlib.Case) vlib.Result {
		var res vlib.Result
		p0, p1 := alpha[c.Index/len(alpha)], alpha[c.Index%len(alpha)]
		idx := make([]int, depth-2)
		seqs := 0
		violated := false
		// also the shorter sequences: the prefix alone and prefix+1..depth-3 are covered as prefixes of longer ones
		for {
			ops := []c5op{p0, p1}
			for _, k := range idx {
				ops = append(ops, alpha[k])
			}
			seqs++
			if !violated && !c5runSeq(&res, ops) {
				violated = true // keep only the first witness of this prefix
				break
			}
			// next
			i := len(idx) - 1
			for i >= 0 {
				idx[i]++
				if idx[i] < len(alpha) {
					break
				}
				idx[i] = 0
				i--
			}
			if i < 0 {
				break
			}
		}
		res.Count("sequences_exhaustive", int64(seqs))
		res.Key = fmt.Sprintf("prefix %s;%s depth %d", p0, p1, depth)
		if c.Index%97 == 0 {
			res.Sample = map[string]any{"prefix": []string{p0.String(), p1.String()}, "depth": depth, "alphabet_size": len(alpha), "sequences": seqs}
		}
		return res
	})

	// random: longer sequences over a larger id pool
	nRand := e.Pick(40, 20000)
	vlib.RunCases(t, "C05", "seq-random", nRand, func(c *vlib.Case) vlib.Result {
		var res vlib.Result
		pool := []string{"a", "b", "c", "d", "e", "f"}
		alphaR := c5alphabet(pool, pool[:4], "zz")
		shapes := map[string]bool{}
		var sample []string
		for s := 0; s < 50; s++ {
			n := 5 + c.Rng.IntN(36)
			ops := make([]c5op, n)
			for i := range ops {
				// bias towards adds early so by-id ops hit present ids
				if c.Rng.IntN(3) == 0 {
					ops[i] = c5op{Kind: []string{"AddFirst", "AddLast"}[c.Rng.IntN(2)], New: pool[c.Rng.IntN(len(pool))]}
				} else {
					ops[i] = alphaR[c.Rng.IntN(len(alphaR))]
				}
			}
			if !c5runSeq(&res, ops) {
				break
			}
			shapes[fmt.Sprint(n)] = true
			if s == 0 {
				for _, o := range ops {
					sample = append(sample, o.String())
				}
			}
		}
		res.Count("sequences_random", 50)
		res.Key = fmt.Sprintf("rand-%d", c.Index)
		if c.Index < 2 {
			res.Sample = map[string]any{"first_sequence": sample}
		}
		return res
	})
}

// ---------------------------------------------------------------- worker loop

type c5step struct {
	Status string
	Head   int // number of new tasks
	After  int
	Tail   int
	Ext    []c5op // public ops issued from inside the handler (never target the current task)
	Delay  time.Duration
}

func TestC05Loop(t *testing.T) {
	e := vlib.GetEnv()
	n := e.Pick(150, 30000)
	vlib.RunCases(t, "C05", "loop", n, func(c *vlib.Case) vlib.Result {
		var res vlib.Result
		rng := c.Rng
		nInit := rng.IntN(5)
		nSteps := 3 + rng.IntN(10)
		steps := make([]c5step, nSteps)
		statuses := []string{"Success", "Success", "Keep", "Fail", "Repeat"}
		for i := range steps {
			st := c5step{Status: statuses[rng.IntN(len(statuses))]}
			if st.Status == "Success" || st.Status == "Keep" {
				st.Head, st.After, st.Tail = rng.IntN(3), rng.IntN(3), rng.IntN(3)
				if rng.IntN(2) == 0 {
					st.Head = 0
				}
				if rng.IntN(2) == 0 {
					st.After = 0
				}
			}
			for k := rng.IntN(3); k > 0; k-- {
				kinds := []string{"AddFirst", "AddLast", "RemoveLast", "AddAfterCur", "AddBeforeCur"}
				if c.Index%3 == 1 {
					// duplicated ids (see below): the public AddAfter/AddBefore address a task by id, so "relative to
					// the current task" is not expressible; the results of the handler are what is examined there
					kinds = kinds[:3]
				}
				if c.Index%3 != 1 && rng.IntN(5) == 0 {
					// the handled task is taken out of the queue while its handler runs (unique ids only); where
					// AfterTasks of a task that is gone belong is not stated, so such a step returns none
					st.Ext = append(st.Ext, c5op{Kind: "RemoveCur"})
					st.After = 0
					continue
				}
				st.Ext = append(st.Ext, c5op{Kind: kinds[rng.IntN(len(kinds))]})
			}
			if rng.IntN(6) == 0 {
				st.Delay = time.Duration(1+rng.IntN(3)) * time.Second
			}
			steps[i] = st
		}
		var trace []string
		inBubble(c, func(t *testing.T) {
			ctx, cancel := context.WithCancel(context.Background())
			defer cancel()
			q := queue.NewTasksQueue()
			q.WithContext(ctx)
			q.WithName("loop")
			var ref []c5item
			next := 0
			// every third case: ids come from a pool of two, so the queue holds several tasks with the id of
			// the task being handled; results (remove on Success, AfterTasks) concern the handled task itself
			dupIDs := c.Index%3 == 1
			mk := func() *c5task {
				id := fmt.Sprintf("t%d", next)
				if dupIDs {
					id = fmt.Sprintf("d%d", next%2)
				}
				tk := c5new(next, id)
				next++
				return tk
			}
			for i := 0; i < nInit; i++ {
				tk := mk()
				q.AddLast(tk)
				ref = append(ref, c5item{tk.uid, tk.Id})
			}
			stepNo := 0
			var mu sync.Mutex
			lastStatus := ""
			lastExit := time.Time{}
			lastDelay := time.Duration(0)
			handled := 0
			q.WithHandler(func(tk task.Task) queue.TaskResult {
				mu.Lock()
				defer mu.Unlock()
				handled++
				cur := c5uid(tk)
				content := c5content(q)
				trace = append(trace, fmt.Sprintf("enter uid=%d content=%v", cur, content))
				if len(ref) == 0 || ref[0].uid != cur {
					res.Violate("loop/not-head", "handler invoked with uid %d but the reference head is %v (queue %v) after %v", cur, c5refUids(ref), content, trace)
				}
				if !eqInts(content, c5refUids(ref)) {
					res.Violate("loop/content/after-"+lastStatus, "at handler entry queue=%v reference=%v; trace %v", content, c5refUids(ref), trace)
					// resync so one defect is reported once
					ref = ref[:0]
					for _, u := range content {
						ref = append(ref, c5item{u, fmt.Sprintf("t%d", u)})
					}
				}
				if l := q.Length(); l != len(content) {
					res.Violate("loop/length", "Length()=%d, tasks=%d", l, len(content))
				}
				// virtual-time gap after Fail / Repeat / explicit delay
				if !lastExit.IsZero() {
					gap := time.Since(lastExit)
					switch {
					case lastDelay != 0:
						if gap < lastDelay {
							res.Violate("loop/delay", "explicit delay %v but next handler after %v", lastDelay, gap)
						}
					case lastStatus == "Fail":
						if gap < queue.DefaultInitialDelayOnFailedTask {
							res.Violate("loop/fail-delay", "retry after %v < initial delay", gap)
						}
					}
				}
				var st c5step
				if stepNo < len(steps) {
					st = steps[stepNo]
				} else {
					st = c5step{Status: "Success"}
				}
				stepNo++
				// external ops from inside the handler
				for _, o := range st.Ext {
					switch o.Kind {
					case "AddFirst":
						nt := mk()
						q.AddFirst(nt)
						ref = insertAt(ref, 0, c5item{nt.uid, nt.Id})
					case "AddLast":
						nt := mk()
						q.AddLast(nt)
						ref = append(ref, c5item{nt.uid, nt.Id})
					case "RemoveLast":
						if len(ref) > 0 && ref[len(ref)-1].uid != cur {
							q.RemoveLast()
							ref = ref[:len(ref)-1]
						}
					case "RemoveCur":
						for i, it := range ref {
							if it.uid == cur {
								q.Remove(tk.GetId())
								ref = removeAt(ref, i)
								res.Count("handled_task_removed_during_handler", 1)
								break
							}
						}
					case "AddAfterCur", "AddBeforeCur":
						pos := -1
						for i, it := range ref {
							if it.uid == cur {
								pos = i
							}
						}
						if pos >= 0 {
							nt := mk()
							if o.Kind == "AddAfterCur" {
								q.AddAfter(tk.GetId(), nt)
								ref = insertAt(ref, pos+1, c5item{nt.uid, nt.Id})
							} else {
								q.AddBefore(tk.GetId(), nt)
								ref = insertAt(ref, pos, c5item{nt.uid, nt.Id})
							}
						}
					}
				}
				r := queue.TaskResult{Status: queue.TaskStatus(st.Status), DelayBeforeNextTask: st.Delay}
				var heads, afters, tails []c5item
				for i := 0; i < st.Head; i++ {
					nt := mk()
					r.HeadTasks = append(r.HeadTasks, nt)
					heads = append(heads, c5item{nt.uid, nt.Id})
				}
				for i := 0; i < st.After; i++ {
					nt := mk()
					r.AfterTasks = append(r.AfterTasks, nt)
					afters = append(afters, c5item{nt.uid, nt.Id})
				}
				for i := 0; i < st.Tail; i++ {
					nt := mk()
					r.TailTasks = append(r.TailTasks, nt)
					tails = append(tails, c5item{nt.uid, nt.Id})
				}
				// reference application
				if st.Status == "Success" || st.Status == "Keep" {
					pos := -1
					for i, it := range ref {
						if it.uid == cur {
							pos = i
						}
					}
					if pos >= 0 {
						nref := append([]c5item{}, ref[:pos+1]...)
						nref = append(nref, afters...)
						nref = append(nref, ref[pos+1:]...)
						if st.Status == "Success" {
							nref = removeAt(nref, pos)
						}
						nref = append(append([]c5item{}, heads...), nref...)
						nref = append(nref, tails...)
						ref = nref
					} else {
						// the handled task left the queue during the handler (RemoveCur; no AfterTasks then):
						// nothing else is removed on its behalf, head and tail insertions are ordinary
						nref := append(append([]c5item{}, heads...), ref...)
						ref = append(nref, tails...)
					}
				}
				lastStatus = st.Status
				lastExit = time.Now()
				lastDelay = st.Delay
				trace = append(trace, fmt.Sprintf("exit %s h=%d a=%d t=%d ext=%d", st.Status, st.Head, st.After, st.Tail, len(st.Ext)))
				return r
			})
			q.Start()
			// run until the script is consumed and the queue drained, bounded in virtual time
			for i := 0; i < 400; i++ {
				time.Sleep(1 * time.Second)
				synctest.Wait()
				mu.Lock()
				done := stepNo >= len(steps) && len(ref) == 0
				mu.Unlock()
				if done {
					break
				}
			}
			synctest.Wait()
			mu.Lock()
			final := c5content(q)
			if !eqInts(final, c5refUids(ref)) {
				res.Violate("loop/final-content/after-"+lastStatus, "final queue=%v reference=%v trace=%v", final, c5refUids(ref), trace)
			}
			res.Count("handler_invocations", int64(handled))
			mu.Unlock()
			q.Stop()
			synctest.Wait()
		})
		var kinds []string
		for _, s := range steps {
			kinds = append(kinds, fmt.Sprintf("%s/%d/%d/%d/%d", s.Status[:1], s.Head, s.After, s.Tail, len(s.Ext)))
		}
		res.Key = fmt.Sprintf("init%d:%s", nInit, strings.Join(kinds, ","))
		if c.Index < 3 {
			res.Sample = map[string]any{"initial_tasks": nInit, "script(status/head/after/tail/ext)": kinds, "trace": trace}
		}
		res.Replay = map[string]any{"steps": kinds, "trace": trace}
		return res
	})
}

// ---------------------------------------------------------------- concurrent

type c5cin struct {
	Op string
	ID string
}

func TestC05Conc(t *testing.T) {
	e := vlib.GetEnv()
	n := e.Pick(300, 50000)
	model := porcupine.Model{
		Init: func() interface{} { return "" },
		Step: func(state, input, output interface{}) (bool, interface{}) {
			var items []string
			if s := state.(string); s != "" {
				items = strings.Split(s, ",")
			}
			in := input.(c5cin)
			out := output.(string)
			join := func(x []string) string { return strings.Join(x, ",") }
			switch in.Op {
			case "AddLast":
				return true, join(append(append([]string{}, items...), in.ID))
			case "AddFirst":
				return true, join(append([]string{in.ID}, items...))
			case "RemoveFirst":
				if len(items) == 0 {
					return out == "", state
				}
				return out == items[0], join(items[1:])
			case "RemoveLast":
				if len(items) == 0 {
					return out == "", state
				}
				return out == items[len(items)-1], join(items[:len(items)-1])
			case "GetFirst":
				if len(items) == 0 {
					return out == "", state
				}
				return out == items[0], state
			case "Length":
				return out == fmt.Sprint(len(items)), state
			case "Remove":
				for i, it := range items {
					if it == in.ID {
						return out == in.ID, join(append(append([]string{}, items[:i]...), items[i+1:]...))
					}
				}
				return out == "", state
			case "FilterOdd":
				var kept []string
				for _, it := range items {
					if len(it) > 0 && (it[len(it)-1]-'0')%2 == 1 {
						kept = append(kept, it)
					}
				}
				return true, join(kept)
			}
			return false, state
		},
		DescribeOperation: func(in, out interface{}) string { return fmt.Sprintf("%v -> %v", in, out) },
	}
	vlib.RunCases(t, "C05", "conc", n, func(c *vlib.Case) vlib.Result {
		var res vlib.Result
		rng := c.Rng
		nG := 3 + rng.IntN(2)
		perG := 4 + rng.IntN(3)
		q := queue.NewTasksQueue()
		var clock atomic.Int64
		type plan struct{ ops []c5cin }
		plans := make([]plan, nG)
		uid := 0
		var allIDs []string
		for g := range plans {
			for k := 0; k < perG; k++ {
				kinds := []string{"AddLast", "AddLast", "AddFirst", "RemoveFirst", "RemoveLast", "GetFirst", "Length", "Remove", "FilterOdd"}
				k := kinds[rng.IntN(len(kinds))]
				in := c5cin{Op: k}
				switch k {
				case "AddLast", "AddFirst":
					in.ID = fmt.Sprintf("g%dn%d", g, uid)
					uid++
					allIDs = append(allIDs, in.ID)
				case "Remove":
					if len(allIDs) > 0 {
						in.ID = allIDs[rng.IntN(len(allIDs))]
					} else {
						in.ID = "none0"
					}
				}
				plans[g].ops = append(plans[g].ops, in)
			}
		}
		var mu sync.Mutex
		var hist []porcupine.Operation
		var wg sync.WaitGroup
		start := make(chan struct{})
		for g := range plans {
			wg.Add(1)
			go func(g int) {
				defer wg.Done()
				<-start
				for _, in := range plans[g].ops {
					call := clock.Add(1)
					out := ""
					switch in.Op {
					case "AddLast":
						tk := task.NewTask("T")
						tk.Id = in.ID
						q.AddLast(tk)
					case "AddFirst":
						tk := task.NewTask("T")
						tk.Id = in.ID
						q.AddFirst(tk)
					case "RemoveFirst":
						if r := q.RemoveFirst(); r != nil {
							out = r.GetId()
						}
					case "RemoveLast":
						if r := q.RemoveLast(); r != nil {
							out = r.GetId()
						}
					case "GetFirst":
						if r := q.GetFirst(); r != nil {
							out = r.GetId()
						}
					case "Length":
						out = fmt.Sprint(q.Length())
					case "Remove":
						if r := q.Remove(in.ID); r != nil {
							out = r.GetId()
						}
					case "FilterOdd":
						q.Filter(func(t task.Task) bool { id := t.GetId(); return (id[len(id)-1]-'0')%2 == 1 })
					}
					ret := clock.Add(1)
					mu.Lock()
					hist = append(hist, porcupine.Operation{ClientId: g, Input: in, Call: call, Output: out, Return: ret})
					mu.Unlock()
				}
			}(g)
		}
		close(start)
		wg.Wait()
		// final read joins the history so that the end state is checked too
		var final []string
		q.Iterate(func(t task.Task) {
			if t == nil {
				final = append(final, "<nil>")
			} else {
				final = append(final, t.GetId())
			}
		})
		r, _ := porcupine.CheckOperationsVerbose(model, hist, 10*time.Second)
		overlaps := 0
		for i := range hist {
			for j := range hist {
				if i < j && hist[i].ClientId != hist[j].ClientId && hist[i].Call < hist[j].Return && hist[j].Call < hist[i].Return {
					overlaps++
				}
			}
		}
		res.Count("concurrent_operations", int64(len(hist)))
		res.Count("overlapping_operation_pairs", int64(overlaps))
		switch r {
		case porcupine.Illegal:
			res.Violate("conc/not-linearizable", "history is not linearizable w.r.t. a sequential list: %v final=%v", describeHist(hist), final)
		case porcupine.Unknown:
			res.Inconclusive = "porcupine timeout"
		}
		if overlaps > 0 {
			res.Key = fmt.Sprintf("g%d-ops%d-ov%d-%d", nG, len(hist), overlaps, c.Index)
		}
		if c.Index < 2 {
			res.Sample = map[string]any{"goroutines": nG, "history": describeHist(hist), "final": final, "overlapping_pairs": overlaps}
		}
		res.Replay = map[string]any{"history": describeHist(hist), "final": final}
		return res
	})
}

func describeHist(h []porcupine.Operation) []string {
	var out []string
	for _, o := range h {
		out = append(out, fmt.Sprintf("c%d [%d,%d] %v -> %q", o.ClientId, o.Call, o.Return, o.Input, o.Output))
	}
	return out
}
