package checks

// C02 — Synchronization objects and snapshots equal the set of matching objects.
//
//   system : the shared kubernetes workload; every `objects` / `snapshots` list
//            any hook process received is checked structurally against the
//            ground truth, monotone reads are checked across causally ordered
//            executions, and at quiescence a forced snapshot execution and
//            KubernetesSnapshots() must equal the cluster; every 3rd case
//            restarts the operator on the same cluster.
//   linearizability : one monitor's cache written by informer callbacks
//            (OnAdd/OnUpdate/OnDelete called directly, per-object order kept)
//            while other goroutines call Snapshot(); the history is checked with
//            porcupine against a register-per-object model.

import (
	"context"
	"fmt"
	"os"
	"sort"
	"strings"
	"sync"
	"sync/atomic"
	"testing"
	"testing/synctest"
	"time"

	"github.com/anishathalye/porcupine"
	"github.com/deckhouse/deckhouse/pkg/log"

	"github.com/flant/shell-operator/pkg/hook/config"
	kubeeventsmanager "github.com/flant/shell-operator/pkg/kube_events_manager"
	kemtypes "github.com/flant/shell-operator/pkg/kube_events_manager/types"
	metricstorage "github.com/flant/shell-operator/pkg/metric_storage"

	"github.com/flant/shell-operator/pkg/hook/task_metadata"
	"github.com/flant/shell-operator/pkg/task"

	"verif/harness/vlib"
)

func TestC02System(t *testing.T) {
	e := vlib.GetEnv()
	n := e.Pick(48, 10000)
	vlib.RunCases(t, "C02", "system", n, func(c *vlib.Case) vlib.Result {
		var res vlib.Result
		kc := genKCase(c.Rng, map[string]bool{"watch-faults": c.Index%5 == 4})
		restart := c.Index%3 == 2
		if c.Index%8 == 1 {
			// catalogue: an object known to AddMonitor's list is deleted / modified / created before the
			// informer itself lists (operator parked between AddMonitor and StartMonitor)
			kc.Pre = []kop{{Op: "put", Ns: "ns1", Name: "a", Lbl: map[string]string{"sel": "x"}}, {Op: "put", Ns: "ns1", Name: "b", Lbl: map[string]string{"sel": "x"}}}
			kc.Between = []kop{{Op: "delete", Ns: "ns1", Name: "a"}, {Op: "put", Ns: "ns1", Name: "b", Lbl: map[string]string{"sel": "x"}}, {Op: "put", Ns: "ns1", Name: "c", Lbl: map[string]string{"sel": "x"}}}
		}
		if c.Index%8 == 7 {
			// catalogue: a watch outage (nothing delivered) during which an object is deleted and another one
			// modified, ended by 410 Gone: the informers learn both from the relist (the deletion as a tombstone)
			kc.Pre = append(kc.Pre, kop{Op: "put", Ns: "ns1", Name: "a", Lbl: map[string]string{"sel": "x"}}, kop{Op: "put", Ns: "ns1", Name: "b", Lbl: map[string]string{"sel": "x"}})
			kc.Post = append(kc.Post, kop{Op: "put", Ns: "ns1", Name: "a", Lbl: map[string]string{"sel": "x"}}, kop{Op: "stall-watches"}, kop{Op: "delete", Ns: "ns1", Name: "a"}, kop{Op: "put", Ns: "ns1", Name: "b", Lbl: map[string]string{"sel": "x"}}, kop{Op: "expire-watches"})
		}
		var steady func(sys *vlib.Sys, rec *krecord)
		if c.Index%4 == 3 {
			// a write lands between two snapshot reads of ONE execution: two snapshot ticks are combined into
			// one execution (two contexts including every binding); the first reader is parked after its copy,
			// an object is created, the reader continues. Every binding's snapshot must still be rendered
			// identically in both contexts.
			steady = func(sys *vlib.Sys, rec *krecord) {
				gate := vlib.NewGate()
				sys.OnStop(gate.Release)
				armed := false
				sys.Pts.On("ri.snap.afterCopy", func(ev vlib.PointEvent) {
					if armed {
						gate.Park()
					}
				})
				kh := rec.KC.Hooks[0]
				armed = true
				tick(sys, kh.SnapCron)
				tick(sys, kh.SnapCron)
				if waitHit(sys, gate) {
					rec.Armed["write-between-reads-of-one-execution"] = true
					applyOps(rec.VC, []kop{{Op: "put", Ns: "ns1", Name: "between-reads", Lbl: map[string]string{"sel": "x"}}}, "between two snapshot reads of one execution", rec, nil, rec.KC)
					synctest.Wait()
				}
				armed = false
				gate.Release()
				sys.Settle(100)
			}
		}
		var install, drive func(sys *vlib.Sys, rec *krecord)
		if c.Index%8 == 5 {
			// catalogue: the Synchronization contexts of a grouped binding G (an ungrouped Synchronization at the
			// head is never combined) and two bindings A and B (B includes A's snapshot) are combined into one execution; the reader that fills A's `objects` is parked after its copy, an
			// object matching A is created, the reader continues. `objects` of A and snapshots[A] of B's
			// context belong to one execution and must be identical.
			rel := "k0.sh"
			kc = &kcase{Hooks: []khook{{Rel: rel, SnapCron: "10 3 1 1 *", Binds: []kbind{
				{Hook: rel, Name: "G", SelShape: "names", Sel: vlib.KSel{Names: []string{"g"}}, Group: "g", OnSync: true, KeepFull: true},
				{Hook: rel, Name: "A", SelShape: "all", OnSync: true, KeepFull: true},
				{Hook: rel, Name: "B", SelShape: "labels", Sel: vlib.KSel{Labels: map[string]string{"sel": "x"}}, OnSync: true, KeepFull: true, Include: []string{"A"}},
			}}},
				Pre: []kop{{Op: "put", Ns: "ns1", Name: "a"}, {Op: "put", Ns: "ns2", Name: "b", Lbl: map[string]string{"sel": "x"}}},
			}
			restart = false
			gate := (*vlib.Gate)(nil)
			install = func(sys *vlib.Sys, rec *krecord) {
				gate = vlib.NewGate()
				sys.OnStop(gate.Release)
				monA := ""
				if h := sys.Op.HookManager.GetHook(rel); h != nil {
					for _, kb := range h.Config.OnKubernetesEvents {
						if kb.BindingName == "A" {
							monA = kb.Monitor.Metadata.MonitorId
						}
					}
				}
				inHookRun := false
				sys.Pts.On("q.handler.enter", func(ev vlib.PointEvent) {
					tk, _ := ev.Args[1].(task.Task)
					inHookRun = tk != nil && tk.GetType() == task_metadata.HookRun
				})
				sys.Pts.On("ri.snap.afterCopy", func(ev vlib.PointEvent) {
					if inHookRun && monA != "" && ev.Args[0].(string) == monA {
						gate.Park()
					}
				})
			}
			drive = func(sys *vlib.Sys, rec *krecord) {
				if waitHit(sys, gate) {
					rec.Armed["write-between-objects-read-and-included-snapshot-read"] = true
					applyOps(rec.VC, []kop{{Op: "put", Ns: "ns1", Name: "between-reads"}}, "between the read for A's objects and the read for snapshots[A] of one execution", rec, nil, rec.KC)
					synctest.Wait()
				}
				gate.Release()
			}
		}
		rec := runKCaseR(c, kc, restart, install, drive, steady)
		for a := range rec.Armed {
			res.Count("phase_armed/"+a, 1)
		}
		if rec.Inconclusive != "" {
			res.Inconclusive = rec.Inconclusive
			return res
		}
		if os.Getenv("VERIF_DUMP") != "" {
			for _, ex := range rec.Execs {
				fmt.Fprintf(os.Stderr, "DUMP exec #%d %s q=%s status=%s\n%s\n", ex.Idx, ex.Hook, ex.Queue, ex.Status, vlib.JSON(ex.Contexts))
			}
			fmt.Fprintln(os.Stderr, rec.describe())
		}
		c02validate(&res, rec)
		shapes := map[string]bool{}
		for _, kh := range kc.Hooks {
			for _, b := range kh.Binds {
				shapes[b.SelShape] = true
			}
		}
		armed := vlib.SortedKeys(rec.Armed)
		res.Key = fmt.Sprintf("%s|armed=%s|restart=%v|ops=%d", strings.Join(vlib.SortedKeys(shapes), "+"), strings.Join(armed, "+"), restart, len(rec.Trace)/4)
		if c.Index < 2 {
			res.Sample = m{"case": rec.describe()}
		}
		res.Replay = m{"case": rec.describe()}
		return res
	})
}

type c02item struct {
	Key string // ns/name ("" when the object is not kept)
	Gen int
	Raw map[string]any
}

func c02items(list any) ([]c02item, bool) {
	arr, ok := list.([]any)
	if !ok {
		return nil, false
	}
	var res []c02item
	for _, it := range arr {
		mm, _ := it.(map[string]any)
		ci := c02item{Raw: mm}
		if obj, ok := mm["object"].(map[string]any); ok && obj != nil {
			md, _ := obj["metadata"].(map[string]any)
			ci.Key = fmt.Sprintf("%v/%v", md["namespace"], md["name"])
			g, _, _ := unstructuredNestedString(obj, "data", "gen")
			fmt.Sscanf(g, "%d", &ci.Gen)
		} else {
			fmt.Sscanf(genFromFilterResult(mm["filterResult"]), "%d", &ci.Gen)
		}
		res = append(res, ci)
	}
	return res, true
}

func c02validate(res *vlib.Result, rec *krecord) {
	vc := rec.VC
	desc := rec.describe
	// last generation shown per (queue, hook/binding, object) in causal order
	type seenKey struct{ q, hb, key string }
	lastSeen := map[seenKey]int{}
	lastSeenAt := map[seenKey]int{}
	// executions ordered by handler enter within a queue
	byQ := map[string][]*kexec{}
	for _, ex := range rec.Execs {
		byQ[ex.Queue] = append(byQ[ex.Queue], ex)
	}
	checkList := func(ex *kexec, b *kbind, items []c02item, where string) map[string]int {
		set := map[string]int{}
		var order []string
		for _, it := range items {
			res.Count("snapshot_items_checked", 1)
			key := it.Key
			if key == "" {
				// identify by generation
				for k := range vc.History {
					if _, _, ok := vc.StateByGen(k, it.Gen); ok && it.Gen != 0 {
						key = k
					}
				}
			}
			if key == "" || it.Gen == 0 {
				continue // not identifiable (no object, filter without generation)
			}
			st, _, found := vc.StateByGen(key, it.Gen)
			if !found || st.Deleted {
				res.Violate("state-never-existed", "%s: item %s@%d is not a state the cluster ever had\n%s", where, key, it.Gen, desc())
				continue
			}
			if _, dup := set[key]; dup {
				res.Violate("object-listed-twice", "%s: %s appears twice\n%s", where, key, desc())
			}
			set[key] = it.Gen
			order = append(order, key)
			parts := strings.SplitN(key, "/", 2)
			if it.Key != "" {
				want := c13norm(vlib.BuildCM(parts[0], parts[1], st).Object)
				if vlib.JSON(it.Raw["object"]) != vlib.JSON(want) {
					res.Violate("object-content", "%s: object %s@%d differs from the state written to the cluster\n got  %s\n want %s\n%s", where, key, it.Gen, vlib.JSON(it.Raw["object"]), vlib.JSON(want), desc())
				}
			}
			// the listed object must match the binding's object-level selectors in that state
			sel := b.Sel
			sel.NsLabels = nil
			if !vc.Matches(sel, parts[0], parts[1], st) {
				res.Violate("non-matching-object-listed/"+b.SelShape, "%s: %s@%d does not match binding %s (%s)\n%s", where, key, it.Gen, b.Name, b.SelShape, desc())
			}
			if len(b.Sel.NsLabels) > 0 {
				ever := false
				for _, l := range vc.NsHist[parts[0]] {
					if l != nil && subsetLabels(b.Sel.NsLabels, l) {
						ever = true
					}
				}
				if !ever {
					res.Violate("non-matching-object-listed/ns-labels", "%s: %s is in a namespace that never matched the binding's namespace selector\n%s", where, key, desc())
				}
			}
			if b.Jq != "" {
				want, err := jqRef(b.Jq, vlib.BuildCM(parts[0], parts[1], st).Object)
				if err == nil && vlib.JSON(it.Raw["filterResult"]) != vlib.JSON(want) {
					res.Violate("filterresult-wrong/jq="+jqKind(b.Jq), "%s: %s@%d filterResult %s, expected %s\n%s", where, key, it.Gen, vlib.JSON(it.Raw["filterResult"]), vlib.JSON(want), desc())
				}
			}
		}
		if !sort.SliceIsSorted(order, func(i, j int) bool {
			a, bb := strings.SplitN(order[i], "/", 2), strings.SplitN(order[j], "/", 2)
			if a[0] != bb[0] {
				return a[0] < bb[0]
			}
			return a[1] < bb[1]
		}) {
			res.Violate("not-sorted", "%s: order %v is not (namespace, name) order\n%s", where, order, desc())
		}
		return set
	}
	for _, qn := range vlib.SortedKeys(byQ) {
		for _, ex := range byQ[qn] {
			perBinding := map[string]string{} // binding -> rendering, to compare inside one execution
			for ci, cx := range ex.Contexts {
				bname := fmt.Sprint(cx["binding"])
				where := fmt.Sprintf("execution #%d of %s, context %d (%s/%v)", ex.Idx, ex.Hook, ci, bname, cx["type"])
				var b *kbind
				wantKeys := map[string]bool{}
				if bname == "snap" {
					for _, kh := range rec.KC.Hooks {
						if kh.Rel == ex.Hook {
							for _, kb := range kh.Binds {
								wantKeys[kb.Name] = true
							}
						}
					}
				} else {
					b = rec.KC.bind(ex.Hook, bname)
					if b == nil {
						continue
					}
					for _, i := range b.Include {
						wantKeys[i] = true
					}
					if b.Group != "" {
						for _, kh := range rec.KC.Hooks {
							if kh.Rel == ex.Hook {
								for _, kb := range kh.Binds {
									if kb.Group == b.Group {
										wantKeys[kb.Name] = true
									}
								}
							}
						}
					}
				}
				snaps, _ := cx["snapshots"].(map[string]any)
				if len(wantKeys) > 0 || len(snaps) > 0 {
					if strings.Join(vlib.SortedKeys(snaps), ",") != strings.Join(vlib.SortedKeys(wantKeys), ",") {
						res.Violate("snapshots-keys", "%s: snapshots keys %v, expected %v (includeSnapshotsFrom + kubernetes bindings of the group)\n%s", where, vlib.SortedKeys(snaps), vlib.SortedKeys(wantKeys), desc())
					}
				}
				lists := map[string]any{}
				for k, v := range snaps {
					lists[k] = v
				}
				if fmt.Sprint(cx["type"]) == "Synchronization" && b != nil {
					if prev, ok := lists[bname]; ok && vlib.JSON(prev) != vlib.JSON(cx["objects"]) {
						res.Violate("objects-differ-from-own-snapshot", "%s: objects and snapshots[%s] differ inside one context\n%s", where, bname, desc())
					}
					lists[bname+"#objects"] = cx["objects"]
				}
				for name, list := range lists {
					bn := strings.TrimSuffix(name, "#objects")
					lb := rec.KC.bind(ex.Hook, bn)
					if lb == nil {
						continue
					}
					items, ok := c02items(list)
					if !ok {
						continue
					}
					rendering := vlib.JSON(list)
					if prev, ok := perBinding[bn]; ok && prev != rendering {
						res.Violate("snapshot-differs-within-execution", "%s: the snapshot of binding %s is rendered differently in two places of one execution\n%s", where, bn, desc())
					}
					perBinding[bn] = rendering
					set := checkList(ex, lb, items, where+" list "+name)
					// monotone reads in causal order (same queue)
					for key, g := range set {
						sk := seenKey{qn, ex.Hook + "/" + bn, key}
						if prev, ok := lastSeen[sk]; ok && g < prev && lastSeenAt[sk] != ex.Idx {
							res.Violate("stale-read", "%s: %s shown at generation %d, but execution #%d of the same queue had already been shown generation %d\n%s", where, key, g, lastSeenAt[sk], prev, desc())
						}
						if g >= lastSeen[sk] {
							lastSeen[sk] = g
							lastSeenAt[sk] = ex.Idx
						}
					}
				}
			}
		}
	}
	// at quiescence: the forced snapshot execution and KubernetesSnapshots() equal the cluster
	for _, kh := range rec.KC.Hooks {
		var lastSnap *kexec
		for _, ex := range rec.Execs {
			if ex.Hook == kh.Rel && len(ex.Contexts) > 0 && fmt.Sprint(ex.Contexts[len(ex.Contexts)-1]["binding"]) == "snap" {
				lastSnap = ex
			}
		}
		if lastSnap == nil {
			res.Violate("forced-snapshot-missing", "hook %s: no execution for the snapshot tick\n%s", kh.Rel, desc())
			continue
		}
		snaps, _ := lastSnap.Contexts[len(lastSnap.Contexts)-1]["snapshots"].(map[string]any)
		for _, b := range kh.Binds {
			truth := rec.Final[kh.Rel+"/"+b.Name]
			res.Count("quiescent_snapshots_compared", 1)
			items, _ := c02items(snaps[b.Name])
			var got []string
			identifiable := true
			for _, it := range items {
				key := it.Key
				if key == "" && it.Gen != 0 {
					// full object not kept: identify the item by the (globally unique) generation in its filterResult
					for k := range vc.History {
						if _, _, ok := vc.StateByGen(k, it.Gen); ok {
							key = k
						}
					}
				}
				if key == "" {
					identifiable = false
				}
				got = append(got, fmt.Sprintf("%s@%d", key, it.Gen))
			}
			sort.Strings(got)
			want := sortedIDs(truth)
			cls := b.SelShape
			for _, a := range vlib.SortedKeys(rec.Armed) {
				cls += "+" + a
			}
			const ghost = "ghost-deleted-between-AddMonitor-list-and-informer-start"
			if identifiable && c02onlyGhosts(rec, &b, got, want) {
				cls = ghost
			}
			if !identifiable && len(items) > len(truth) && len(items)-len(truth) <= c02ghostCandidates(rec, &b) {
				// items carry neither object nor generation: only the size can be compared; the surplus is
				// explained by objects that left the binding's scope between AddMonitor's list and the informer's own
				cls = ghost
			}
			if identifiable {
				if strings.Join(got, ",") != strings.Join(want, ",") {
					res.Violate("quiescent-snapshot-differs-from-cluster/"+cls, "hook %s binding %s: snapshot at quiescence %v, the cluster's matching objects are %v\n%s", kh.Rel, b.Name, got, want, desc())
				}
			} else if len(items) != len(truth) {
				res.Violate("quiescent-snapshot-size/"+cls, "hook %s binding %s: snapshot has %d items, the cluster has %d matching objects\n%s", kh.Rel, b.Name, len(items), len(truth), desc())
			}
			// KubernetesSnapshots() read by the harness
			fs := rec.FinalSnapshots[kh.Rel+"/"+b.Name]
			if len(fs) != len(truth) && cls != "ghost-deleted-between-AddMonitor-list-and-informer-start" {
				res.Violate("kubernetes-snapshots-differ-from-cluster/"+cls, "hook %s binding %s: KubernetesSnapshots() holds %v, the cluster's matching objects are %v\n%s", kh.Rel, b.Name, fs, want, desc())
			}
		}
	}
	// restart
	if rec.RestartTruth != nil {
		for _, kh := range rec.KC.Hooks {
			for _, b := range kh.Binds {
				if !b.OnSync || b.Group != "" || !b.KeepFull {
					continue
				}
				k := kh.Rel + "/" + b.Name
				got, ok := rec.RestartSync[k]
				if !ok {
					res.Violate("restart/synchronization-missing", "after the restart binding %s received no Synchronization\n%s", k, desc())
					continue
				}
				sort.Strings(got)
				want := sortedIDs(rec.RestartTruth[k])
				res.Count("restart_synchronizations_compared", 1)
				if strings.Join(got, ",") != strings.Join(want, ",") {
					res.Violate("restart/objects-differ-from-cluster", "after the restart binding %s got objects %v, the cluster holds %v\n%s", k, got, want, desc())
				}
			}
		}
	}
}

func subsetLabels(want, have map[string]string) bool {
	for k, v := range want {
		if have[k] != v {
			return false
		}
	}
	return true
}

// ---------------------------------------------------------------- linearizability of the cache

type c02in struct {
	Obj   string
	Write bool
	Gen   int // 0 = delete
}

func TestC02Linearizable(t *testing.T) {
	e := vlib.GetEnv()
	n := e.Pick(200, 40000)
	model := porcupine.Model{
		Partition: func(h []porcupine.Operation) [][]porcupine.Operation {
			mm := map[string][]porcupine.Operation{}
			for _, o := range h {
				k := o.Input.(c02in).Obj
				mm[k] = append(mm[k], o)
			}
			var res [][]porcupine.Operation
			for _, k := range vlib.SortedKeys(mm) {
				res = append(res, mm[k])
			}
			return res
		},
		Init: func() interface{} { return 0 },
		Step: func(state, input, output interface{}) (bool, interface{}) {
			in := input.(c02in)
			if in.Write {
				return true, in.Gen
			}
			return output.(int) == state.(int), state
		},
		DescribeOperation: func(in, out interface{}) string { return fmt.Sprintf("%+v -> %v", in, out) },
	}
	vlib.RunCases(t, "C02", "linearizable", n, func(c *vlib.Case) vlib.Result {
		var res vlib.Result
		rng := c.Rng
		kubeeventsmanager.DefaultFactoryStore = kubeeventsmanager.NewFactoryStore()
		vc := vlib.NewVCluster()
		ctx, cancel := context.WithCancel(context.Background())
		defer cancel()
		hc := &config.HookConfig{}
		jq := []string{"", ".data"}[rng.IntN(2)]
		bind := m{"name": "b", "apiVersion": "v1", "kind": "ConfigMap"}
		if jq != "" {
			bind["jqFilter"] = jq
		}
		if err := hc.LoadAndValidate([]byte(cfgJSON(m{"configVersion": "v1", "kubernetes": []any{bind}}))); err != nil {
			res.Inconclusive = err.Error()
			return res
		}
		ms := metricstorage.NewMetricStorage(ctx, "p_", true, log.NewNop())
		mon := kubeeventsmanager.NewMonitor(ctx, vc.Client, ms, hc.OnKubernetesEvents[0].Monitor, func(kemtypes.KubeEvent) {}, log.NewNop())
		if err := mon.CreateInformers(); err != nil {
			res.Inconclusive = err.Error()
			return res
		}
		mon.EnableKubeEventCb()
		informers := mon.ResourceInformers
		if len(informers) != 1 {
			res.Inconclusive = "expected one informer"
			return res
		}
		ri := informers[0]
		objs := []string{"a", "b", "c"}[:2+rng.IntN(2)]
		var clock atomic.Int64
		var mu sync.Mutex
		var hist []porcupine.Operation
		var wg sync.WaitGroup
		gen := 0
		// writers: one per object (client-go delivers per-object events in order)
		for wi, o := range objs {
			nw := 2 + rng.IntN(4)
			plan := make([]int, nw)
			for i := range plan {
				gen++
				plan[i] = gen
				if rng.IntN(5) == 0 && i > 0 {
					plan[i] = 0 // delete
				}
			}
			wg.Add(1)
			go func(wi int, o string, plan []int) {
				defer wg.Done()
				exists := false
				for _, g := range plan {
					u := vlib.BuildCM("default", o, vlib.ObjState{Gen: g})
					call := clock.Add(1)
					switch {
					case g == 0:
						if exists {
							ri.OnDelete(u)
						}
						exists = false
					case !exists:
						ri.OnAdd(u, false)
						exists = true
					default:
						ri.OnUpdate(nil, u)
					}
					ret := clock.Add(1)
					mu.Lock()
					hist = append(hist, porcupine.Operation{ClientId: wi, Input: c02in{Obj: o, Write: true, Gen: g}, Call: call, Return: ret, Output: 0})
					mu.Unlock()
				}
			}(wi, o, plan)
		}
		// readers
		nr := 2
		for r := 0; r < nr; r++ {
			wg.Add(1)
			go func(r int) {
				defer wg.Done()
				for k := 0; k < 3; k++ {
					call := clock.Add(1)
					snap := mon.Snapshot()
					ret := clock.Add(1)
					seen := map[string]int{}
					for _, it := range snap {
						if it.Object != nil {
							g, _, _ := unstructuredNestedString(it.Object.Object, "data", "gen")
							var gi int
							fmt.Sscanf(g, "%d", &gi)
							seen[it.Object.GetName()] = gi
						}
					}
					mu.Lock()
					for _, o := range objs {
						hist = append(hist, porcupine.Operation{ClientId: len(objs) + r, Input: c02in{Obj: o}, Call: call, Return: ret, Output: seen[o]})
					}
					mu.Unlock()
				}
			}(r)
		}
		wg.Wait()
		r, _ := porcupine.CheckOperationsVerbose(model, hist, 10*time.Second)
		res.Count("cache_operations", int64(len(hist)))
		switch r {
		case porcupine.Illegal:
			res.Violate("cache-not-linearizable", "Snapshot() reads are not linearizable w.r.t. the informer callbacks: %v", describeHist(hist))
		case porcupine.Unknown:
			res.Inconclusive = "porcupine timeout"
		}
		res.Key = fmt.Sprintf("objs%d-ops%d-%d", len(objs), len(hist), c.Index%32)
		if c.Index < 2 {
			res.Sample = m{"history": describeHist(hist)}
		}
		return res
	})
}

// c02leftScope: the state following generation gen of key was written while the operator was parked between
// AddMonitor and StartMonitor and took the object out of the binding's scope (deleted, or relabelled so that
// the object-level selectors no longer match).
func c02leftScope(rec *krecord, b *kbind, key string, gen int) bool {
	_, idx, ok := rec.VC.StateByGen(key, gen)
	h := rec.VC.History[key]
	if !ok {
		return false
	}
	// the run of states written in the between phase right after the listed one; its last state decides
	last := -1
	for j := idx + 1; j < len(h) && rec.PhaseOf[h[j].Gen] == "between-AddMonitor-and-StartMonitor"; j++ {
		last = j
	}
	if last < 0 {
		return false
	}
	if h[last].Deleted {
		return true
	}
	sel := b.Sel
	sel.NsLabels = nil
	parts := strings.SplitN(key, "/", 2)
	return !rec.VC.Matches(sel, parts[0], parts[1], h[last])
}

// c02ghostCandidates counts the objects that matched the binding and left its scope in the between phase.
func c02ghostCandidates(rec *krecord, b *kbind) int {
	n := 0
	sel := b.Sel
	sel.NsLabels = nil
	for key, h := range rec.VC.History {
		parts := strings.SplitN(key, "/", 2)
		for i := 0; i+1 < len(h); i++ {
			if !h[i].Deleted && rec.VC.Matches(sel, parts[0], parts[1], h[i]) && c02leftScope(rec, b, key, h[i].Gen) {
				n++
				break
			}
		}
	}
	return n
}

// c02onlyGhosts: the snapshot holds everything the cluster holds plus objects that left the binding's
// scope (deleted / relabelled) while the operator was parked between AddMonitor and StartMonitor.
func c02onlyGhosts(rec *krecord, b *kbind, got, want []string) bool {
	w := map[string]bool{}
	for _, x := range want {
		w[x] = true
	}
	g := map[string]bool{}
	extras := 0
	for _, x := range got {
		g[x] = true
		if w[x] {
			continue
		}
		extras++
		at := strings.LastIndexByte(x, '@')
		key := x[:at]
		var gen int
		fmt.Sscanf(x[at+1:], "%d", &gen)
		if !c02leftScope(rec, b, key, gen) {
			return false
		}
	}
	for x := range w {
		if !g[x] {
			return false
		}
	}
	return extras > 0
}
