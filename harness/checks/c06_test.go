package checks

// C06 — startup order: onStartup by (order, path), then per hook in path order
// the Synchronization of its kubernetes bindings, then the rest.
//
// The whole operator starts in virtual time over a generated hook set; schedule
// ticks for every crontab in use are injected every 100 virtual ms during
// startup, objects exist before start and appear during startup; any startup
// execution may be scripted to fail 0-2 times. Observed: the global order of
// hook executions at the process boundary (the agents' log) with their binding
// contexts.

import (
	"fmt"
	"sort"
	"strings"
	"testing"
	"testing/synctest"
	"time"

	"github.com/flant/shell-operator/pkg/hook/task_metadata"
	htypes "github.com/flant/shell-operator/pkg/hook/types"

	"verif/harness/vhk"
	"verif/harness/vlib"
)

type c06kb struct {
	Name   string
	Group  string
	OnSync bool
	Queue  string
	Ns     string // namespace.nameSelector.matchNames: [Ns]
	Name1  string // nameSelector.matchNames: [Name1]
}

type c06hook struct {
	Rel       string
	V0        bool
	OnStartup *float64
	Kube      []c06kb
	Sched     []m
	FailFirst int   // number of failing startup executions (applies to the first execution of the hook)
	FailAt    []int // further executions of the hook that fail (by execution index)
}

func TestC06(t *testing.T) {
	e := vlib.GetEnv()
	n := e.Pick(48, 4000)
	vlib.RunCases(t, "C06", "startup", n, func(c *vlib.Case) vlib.Result {
		var res vlib.Result
		c06run(c, &res)
		return res
	})
}

func c06run(c *vlib.Case, res *vlib.Result) {
	rng := c.Rng
	hs := vlib.NewHookSet(c.Dir, "hooks")
	nH := 1 + rng.IntN(8)
	manyEqual := c.Index%4 == 0
	if manyEqual {
		nH = 13 + rng.IntN(28)
	}
	dirs := []string{"", "", "a/", "b/", "a/sub/", "z/", "00-first/"}
	if c.Index%3 == 1 {
		// directory names that are prefixes of their siblings' names with a next character below '/':
		// a directory walk visits a/... before a-x/... and a.d/..., path order is the other way round
		dirs = []string{"a/", "a/", "a-x/", "a.d/", "a/sub/", "a/sub.d/", "a+b/"}
	}
	crontabs := []string{"20 1 1 1 *", "21 1 1 1 *", "22 1 1 1 *"}
	orders := []float64{-5, 0, 1, 1, 5, 5, 5, 10, 100}
	var hooks []*c06hook
	used := map[string]bool{}
	for len(hooks) < nH {
		rel := dirs[rng.IntN(len(dirs))] + fmt.Sprintf("%02d-%s", rng.IntN(30), []string{"hook", "x.sh", "init", "A", "zz"}[rng.IntN(5)])
		if used[rel] {
			continue
		}
		used[rel] = true
		h := &c06hook{Rel: rel}
		if manyEqual {
			// interleave a big class of equal ORDER with other values in path order
			o := 5.0
			if len(hooks)%3 == 1 {
				o = 1.0
			}
			h.OnStartup = &o
			if rng.IntN(4) != 0 {
				hooks = append(hooks, h)
				continue
			}
		} else if rng.IntN(3) != 0 {
			o := orders[rng.IntN(len(orders))]
			h.OnStartup = &o
		}
		if rng.IntN(8) == 0 {
			h.V0 = true
		}
		nk := rng.IntN(4)
		if h.V0 && nk > 1 {
			nk = 1
		}
		for i := 0; i < nk; i++ {
			kb := c06kb{Name: fmt.Sprintf("k%d", i), OnSync: rng.IntN(4) != 0}
			if !h.V0 {
				kb.Group = []string{"", "", "g1", "g2"}[rng.IntN(4)]
				if rng.IntN(4) == 0 {
					kb.Queue = "q1"
				}
			} else {
				kb.OnSync = false
			}
			h.Kube = append(h.Kube, kb)
		}
		for i := rng.IntN(3); i > 0; i-- {
			s := m{"name": fmt.Sprintf("s%d", i), "crontab": crontabs[rng.IntN(len(crontabs))]}
			if !h.V0 {
				if rng.IntN(3) == 0 {
					s["queue"] = "q2"
				}
				if rng.IntN(4) == 0 {
					s["group"] = []string{"g1", "g3"}[rng.IntN(2)]
				}
			}
			h.Sched = append(h.Sched, s)
		}
		if h.OnStartup == nil && len(h.Kube) == 0 && len(h.Sched) == 0 {
			o := 1.0
			h.OnStartup = &o
		}
		if rng.IntN(4) == 0 {
			h.FailFirst = 1 + rng.IntN(2)
		}
		hooks = append(hooks, h)
	}
	if c.Index%4 == 2 {
		// catalogue: one hook with two ungrouped kubernetes bindings (separate Synchronization tasks), the second
		// in its own queue; the second binding's first Synchronization attempt fails and waits out its back-off
		// while objects keep appearing: no Event of the second binding may reach the hook before its
		// Synchronization has succeeded (the first binding's success must not unlock the second)
		rel := "mm-two-bindings"
		if !used[rel] {
			used[rel] = true
			hooks = append(hooks, &c06hook{Rel: rel, Kube: []c06kb{{Name: "k0", OnSync: true}, {Name: "k1", OnSync: true, Queue: "q1"}}, FailAt: []int{1}})
		}
	}
	if c.Index%4 == 1 {
		// catalogue: two bindings of one group that also name a queue: their Synchronizations are still one Group
		// execution (in the main queue). The bindings select an object that is never created, so this execution is
		// the only one the hook ever gets.
		rel := "mp-group-in-named-queue"
		if !used[rel] {
			used[rel] = true
			hooks = append(hooks, &c06hook{Rel: rel, Kube: []c06kb{{Name: "k0", Group: "g9", Queue: "q1", OnSync: true, Name1: "never-created"}, {Name: "k1", Group: "g9", Queue: "q1", OnSync: true, Name1: "never-created"}}})
		}
	}
	listFails := false
	if c.Index%4 == 3 {
		// catalogue: the first list request of a hook's SECOND binding fails once (a transient API error): the
		// hook's EnableKubernetesBindings task fails after the first binding's monitor was created, and is
		// retried; both bindings must still get their Synchronization exactly once
		rel := "mn-second-list-fails"
		if !used[rel] {
			used[rel] = true
			listFails = true
			hooks = append(hooks, &c06hook{Rel: rel, Kube: []c06kb{{Name: "k0", OnSync: true}, {Name: "k1", OnSync: true, Ns: "nsfail"}}})
		}
	}
	sort.Slice(hooks, func(i, j int) bool { return hooks[i].Rel < hooks[j].Rel })
	for _, h := range hooks {
		var cfg m
		if h.V0 {
			cfg = m{}
			if h.OnStartup != nil {
				cfg["onStartup"] = *h.OnStartup
			}
			var ks []any
			for _, kb := range h.Kube {
				ks = append(ks, m{"name": kb.Name, "kind": "ConfigMap", "event": []any{"add", "update", "delete"}})
			}
			if len(ks) > 0 {
				cfg["onKubernetesEvent"] = ks
			}
			var ss []any
			for _, s := range h.Sched {
				ss = append(ss, m{"name": s["name"], "crontab": s["crontab"]})
			}
			if len(ss) > 0 {
				cfg["schedule"] = ss
			}
		} else {
			cfg = m{"configVersion": "v1"}
			if h.OnStartup != nil {
				cfg["onStartup"] = *h.OnStartup
			}
			var ks []any
			for _, kb := range h.Kube {
				d := m{"name": kb.Name, "apiVersion": "v1", "kind": "ConfigMap"}
				if kb.Group != "" {
					d["group"] = kb.Group
				}
				if !kb.OnSync {
					d["executeHookOnSynchronization"] = false
				}
				if kb.Queue != "" {
					d["queue"] = kb.Queue
				}
				if kb.Ns != "" {
					d["namespace"] = m{"nameSelector": m{"matchNames": []any{kb.Ns}}}
				}
				if kb.Name1 != "" {
					d["nameSelector"] = m{"matchNames": []any{kb.Name1}}
				}
				ks = append(ks, d)
			}
			if len(ks) > 0 {
				cfg["kubernetes"] = ks
			}
			if len(h.Sched) > 0 {
				var ss []any
				for _, s := range h.Sched {
					ss = append(ss, s)
				}
				cfg["schedule"] = ss
			}
		}
		hs.AddHook(h.Rel, 0o755, cfgJSON(cfg))
		for i := 0; i < h.FailFirst; i++ {
			hs.Plan(h.Rel, i, vhk.Directive{Exit: 1})
		}
		for _, i := range h.FailAt {
			hs.Plan(h.Rel, i, vhk.Directive{Exit: 1})
		}
	}
	settled := false
	inBubble(c, func(t *testing.T) {
		vc := vlib.NewVCluster()
		if listFails {
			failed := false
			vc.FailList(func(resource, ns string) error {
				if resource == "configmaps" && ns == "nsfail" && !failed {
					failed = true
					return fmt.Errorf("injected: the API server is temporarily unavailable")
				}
				return nil
			})
		}
		sys, err := vlib.NewSys(hs, vc.Cluster)
		if err != nil {
			res.Inconclusive = "assemble: " + err.Error()
			sys.StopNow()
			return
		}
		defer sys.Stop()
		for i := 0; i < 2; i++ {
			_ = createCM(sys, "default", fmt.Sprintf("pre%d", i), 1)
		}
		sys.Start()
		// during startup: ticks for every crontab every 100 ms, a few objects appear
		objN := 0
		for step := 0; step < 4000; step++ {
			for _, cr := range crontabs {
				select {
				case sys.Op.ScheduleManager.Ch() <- cr:
				default:
				}
			}
			if step%7 == 3 && objN < 6 {
				objN++
				_ = createCM(sys, "default", fmt.Sprintf("during%d", objN), 1)
			}
			time.Sleep(100 * time.Millisecond)
			synctest.Wait()
			// the startup phase is over when no bootstrap task (onStartup run, Enable*Bindings,
			// Synchronization run) is left in the main queue; ticks stop then
			if step > 5 {
				pending := false
				for _, tk := range sys.QueueTasks("main") {
					if tk.GetType() != task_metadata.HookRun {
						pending = true
						break
					}
					hm := task_metadata.HookMetadataAccessor(tk)
					if hm.BindingType == htypes.OnStartup || hm.IsSynchronization() {
						pending = true
						break
					}
				}
				if !pending {
					settled = true
					break
				}
			}
		}
		sys.Settle(50)
	})
	if res.Inconclusive != "" {
		return
	}
	if !settled {
		res.Inconclusive = "startup did not finish within 400 virtual seconds"
		return
	}
	// ---- analysis
	execs := hs.Executions()
	byRel := map[string]*c06hook{}
	for _, h := range hooks {
		byRel[h.Rel] = h
	}
	var trace []string
	for i, ex := range execs {
		trace = append(trace, fmt.Sprintf("#%d %s n=%d [%s] exit=%d", i, ex.Hook, ex.N, vlib.CtxSummary(ex.Contexts), exitOf(ex)))
	}
	var cfgDesc []string
	for _, h := range hooks {
		d := h.Rel
		if h.V0 {
			d += "(v0)"
		}
		if h.OnStartup != nil {
			d += fmt.Sprintf(" onStartup=%v", *h.OnStartup)
		}
		for _, kb := range h.Kube {
			d += fmt.Sprintf(" %s[g=%s sync=%v q=%s]", kb.Name, kb.Group, kb.OnSync, kb.Queue)
		}
		d += fmt.Sprintf(" sched=%d fail=%d", len(h.Sched), h.FailFirst)
		cfgDesc = append(cfgDesc, d)
	}
	desc := func() string {
		return "hooks:\n  " + strings.Join(cfgDesc, "\n  ") + "\nexecutions:\n  " + strings.Join(trace, "\n  ")
	}
	isOnStartup := func(ex *vlib.Execution) bool {
		return len(ex.Contexts) == 1 && fmt.Sprint(ex.Contexts[0]["binding"]) == "onStartup" && ex.Contexts[0]["type"] == nil
	}
	// (1) onStartup phase
	var wantStartup []string
	var osHooks []*c06hook
	for _, h := range hooks {
		if h.OnStartup != nil {
			osHooks = append(osHooks, h)
		}
	}
	sort.SliceStable(osHooks, func(i, j int) bool {
		if *osHooks[i].OnStartup != *osHooks[j].OnStartup {
			return *osHooks[i].OnStartup < *osHooks[j].OnStartup
		}
		return osHooks[i].Rel < osHooks[j].Rel
	})
	for _, h := range osHooks {
		wantStartup = append(wantStartup, h.Rel)
	}
	var gotStartupOK []string
	lastStartupIdx := -1
	firstOtherIdx := -1
	okCount := map[string]int{}
	for i, ex := range execs {
		if isOnStartup(ex) {
			lastStartupIdx = i
			if exitOf(ex) == 0 {
				gotStartupOK = append(gotStartupOK, ex.Hook)
				okCount[ex.Hook]++
			}
		} else if firstOtherIdx < 0 {
			firstOtherIdx = i
		}
	}
	equalClass := "distinct-orders"
	if manyEqual {
		equalClass = "many-equal-orders"
	}
	if strings.Join(gotStartupOK, "\n") != strings.Join(wantStartup, "\n") {
		res.Violate("onstartup-order/"+equalClass, "successful onStartup executions ran in the order\n  %v\nexpected (ORDER, then path)\n  %v\n%s", gotStartupOK, wantStartup, desc())
	}
	for h, k := range okCount {
		if k != 1 {
			res.Violate("onstartup-not-exactly-once", "hook %s ran its onStartup successfully %d times\n%s", h, k, desc())
		}
	}
	if firstOtherIdx >= 0 && firstOtherIdx < lastStartupIdx {
		res.Violate("execution-before-onstartup-finished", "execution #%d is not an onStartup execution but onStartup executions continue until #%d\n%s", firstOtherIdx, lastStartupIdx, desc())
	}
	res.Count("onstartup_hooks", int64(len(wantStartup)))
	// (2) Synchronization per binding
	type bkey struct{ hook, binding string }
	syncOK := map[bkey]int{}
	syncOKIdx := map[bkey]int{}
	groupOK := map[string]int{} // hook|group -> Group contexts in successful executions before any tick-only exec; we count all Group contexts whose execution also unlocks (cannot distinguish), so only use >=1
	firstGroupIdx := map[string]int{}
	lastSyncIdxOfHook := map[string]int{}
	for i, ex := range execs {
		h := byRel[ex.Hook]
		if h == nil {
			continue
		}
		for _, cx := range ex.Contexts {
			b := fmt.Sprint(cx["binding"])
			switch fmt.Sprint(cx["type"]) {
			case "Synchronization":
				var kb *c06kb
				for k := range h.Kube {
					if h.Kube[k].Name == b {
						kb = &h.Kube[k]
					}
				}
				if kb == nil {
					continue
				}
				if h.V0 {
					res.Violate("synchronization-delivered/v0", "hook %s (configVersion v0) received a Synchronization for %s (execution #%d)\n%s", ex.Hook, b, i, desc())
				} else if !kb.OnSync {
					res.Violate("synchronization-delivered/disabled-binding", "hook %s received a Synchronization for binding %s which has executeHookOnSynchronization:false (execution #%d)\n%s", ex.Hook, b, i, desc())
				}
				if exitOf(ex) == 0 {
					syncOK[bkey{ex.Hook, b}]++
					syncOKIdx[bkey{ex.Hook, b}] = i
					lastSyncIdxOfHook[ex.Hook] = i
				}
			case "Group":
				k := ex.Hook + "|" + fmt.Sprint(cx["groupName"])
				if exitOf(ex) == 0 {
					groupOK[k]++
					if _, ok := firstGroupIdx[k]; !ok {
						firstGroupIdx[k] = i
					}
				}
			}
		}
	}
	for _, h := range hooks {
		enabledGroups := map[string]bool{}
		for _, kb := range h.Kube {
			if h.V0 || !kb.OnSync {
				continue
			}
			if kb.Group == "" {
				res.Count("synchronizations_expected", 1)
				if n := syncOK[bkey{h.Rel, kb.Name}]; n != 1 {
					res.Violate("synchronization-not-exactly-once", "hook %s binding %s: %d successful Synchronization executions, expected 1\n%s", h.Rel, kb.Name, n, desc())
				}
			} else {
				enabledGroups[kb.Group] = true
			}
		}
		for g := range enabledGroups {
			res.Count("group_synchronizations_expected", 1)
			if h.Rel == "mp-group-in-named-queue" && groupOK[h.Rel+"|"+g] != 1 {
				res.Violate("group-synchronization-not-shared", "hook %s: the two bindings of group %s (both with queue q1, nothing they select ever exists) got %d Group executions, they share one\n%s", h.Rel, g, groupOK[h.Rel+"|"+g], desc())
			}
			if groupOK[h.Rel+"|"+g] < 1 {
				res.Violate("group-synchronization-missing", "hook %s group %s: no successful Group execution although a binding of the group has Synchronization enabled\n%s", h.Rel, g, desc())
			}
		}
	}
	// (2b) order of hooks' Synchronization blocks = path order; all after the onStartup phase
	prevIdx, prevHook := -1, ""
	for _, h := range hooks {
		first := -1
		for i, ex := range execs {
			if ex.Hook != h.Rel {
				continue
			}
			for _, cx := range ex.Contexts {
				if fmt.Sprint(cx["type"]) == "Synchronization" && first < 0 {
					first = i
				}
			}
		}
		if first < 0 {
			continue
		}
		if first < lastStartupIdx {
			res.Violate("synchronization-before-onstartup-finished", "hook %s got a Synchronization (execution #%d) before the onStartup phase ended (#%d)\n%s", h.Rel, first, lastStartupIdx, desc())
		}
		if first < prevIdx {
			res.Violate("hooks-not-enabled-in-path-order", "hook %s got its first Synchronization (#%d) before hook %s finished its own (#%d)\n%s", h.Rel, first, prevHook, prevIdx, desc())
		}
		if li, ok := lastSyncIdxOfHook[h.Rel]; ok {
			prevIdx, prevHook = li, h.Rel
		}
	}
	// (3) Events of a binding only after its successful Synchronization; Schedule/Group(schedule) executions
	// of a hook only after the hook's Synchronizations and after the onStartup phase
	for i, ex := range execs {
		h := byRel[ex.Hook]
		if h == nil {
			continue
		}
		for _, cx := range ex.Contexts {
			b := fmt.Sprint(cx["binding"])
			switch fmt.Sprint(cx["type"]) {
			case "Event":
				for _, kb := range h.Kube {
					if kb.Name == b && kb.OnSync && kb.Group == "" && !h.V0 {
						if si, ok := syncOKIdx[bkey{ex.Hook, b}]; !ok || si > i {
							res.Violate("event-before-synchronization", "hook %s received an Event of binding %s (execution #%d) before that binding's successful Synchronization\n%s", ex.Hook, b, i, desc())
						}
					}
				}
				if i < lastStartupIdx {
					res.Violate("event-before-onstartup-finished", "execution #%d carries an Event before the onStartup phase ended\n%s", i, desc())
				}
			case "Schedule":
				if i < lastStartupIdx {
					res.Violate("schedule-before-onstartup-finished", "hook %s ran on schedule (execution #%d) before the onStartup phase ended (#%d)\n%s", ex.Hook, i, lastStartupIdx, desc())
				}
				if li, ok := lastSyncIdxOfHook[ex.Hook]; ok && li > i {
					res.Violate("schedule-before-synchronization", "hook %s ran on schedule (execution #%d) before its Synchronization executions were done (#%d)\n%s", ex.Hook, i, li, desc())
				}
			}
		}
		if ex.CtxErr != nil {
			res.Violate("context-unparsable", "execution #%d: %v", i, ex.CtxErr)
		}
	}
	res.Count("executions_observed", int64(len(execs)))
	nk, nfail := 0, 0
	for _, h := range hooks {
		nk += len(h.Kube)
		nfail += h.FailFirst + len(h.FailAt)
	}
	res.Key = fmt.Sprintf("h%d-%s-os%d-k%d-fail%d", len(hooks), equalClass, len(wantStartup), nk, nfail)
	if c.Index < 2 {
		res.Sample = m{"hooks": cfgDesc, "executions": trace}
	}
	res.Replay = m{"hooks": cfgDesc, "executions": trace}
}

func exitOf(ex *vlib.Execution) int {
	if ex.End == nil {
		return -1
	}
	if ex.End.Kill {
		return -9
	}
	return ex.End.Exit
}
