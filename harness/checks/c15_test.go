package checks

// C15 (a) — conversion chain search: a valid rule chain is found iff one exists.
//
// Reference: breadth-first search over declared RULES (the "same version"
// relation of the statement is pairwise and not transitive, so searching over
// version nodes would be wrong).

import (
	"fmt"
	"sort"
	"strings"
	"testing"

	"github.com/flant/shell-operator/pkg/webhook/conversion"

	"verif/harness/vlib"
)

func c15match(a, b string) bool {
	if a == b {
		return true
	}
	ia, ib := strings.IndexByte(a, '/'), strings.IndexByte(b, '/')
	if ia < 0 && ib >= 0 {
		return a == b[ib+1:]
	}
	if ia >= 0 && ib < 0 {
		return a[ia+1:] == b
	}
	return false
}

// c15exists: is there a sequence of declared rules from `from` to `to`?
func c15exists(rules []conversion.Rule, from, to string) bool {
	seen := make([]bool, len(rules))
	var frontier []int
	for i, r := range rules {
		if c15match(r.FromVersion, from) {
			seen[i] = true
			frontier = append(frontier, i)
		}
	}
	for len(frontier) > 0 {
		i := frontier[0]
		frontier = frontier[1:]
		if c15match(rules[i].ToVersion, to) {
			return true
		}
		for j, r := range rules {
			if !seen[j] && c15match(rules[i].ToVersion, r.FromVersion) {
				seen[j] = true
				frontier = append(frontier, j)
			}
		}
	}
	return false
}

// c15valid: is `chain` a sequence of declared rules from `from` to `to`?
func c15valid(rules []conversion.Rule, chain []conversion.Rule, from, to string) string {
	if len(chain) == 0 {
		return "empty"
	}
	decl := map[conversion.Rule]bool{}
	for _, r := range rules {
		decl[r] = true
	}
	for i, r := range chain {
		if !decl[r] {
			return fmt.Sprintf("step %d (%s) is not a declared rule", i, r)
		}
		if i > 0 && !c15match(chain[i-1].ToVersion, r.FromVersion) {
			return fmt.Sprintf("step %d (%s) does not start where step %d (%s) ended", i, r, i-1, chain[i-1])
		}
	}
	if !c15match(chain[0].FromVersion, from) {
		return fmt.Sprintf("chain starts at %s, not at %s", chain[0].FromVersion, from)
	}
	if !c15match(chain[len(chain)-1].ToVersion, to) {
		return fmt.Sprintf("chain ends at %s, not at %s", chain[len(chain)-1].ToVersion, to)
	}
	return ""
}

func c15short(v string) string {
	if i := strings.IndexByte(v, '/'); i >= 0 {
		return v[i+1:]
	}
	return v
}

type c15query struct{ From, To string }

// c15checkGraph runs the queries (in the given order, against ONE storage whose
// path cache is mutated by every query) and compares each answer with the
// reference. Returns false after the first violation.
func c15checkGraph(res *vlib.Result, rules []conversion.Rule, queries []c15query, mode string) bool {
	cs := conversion.NewChainStorage()
	ch := cs.Get("crd")
	for _, r := range rules {
		ch.Put(r)
	}
	for qi, q := range queries {
		got := cs.FindConversionChain("crd", conversion.Rule{FromVersion: q.From, ToVersion: q.To})
		want := c15exists(rules, q.From, q.To)
		res.Count("queries", 1)
		if want {
			res.Count("queries_with_existing_chain", 1)
		}
		class := c15class(rules, q)
		if len(got) == 0 && want {
			res.Violate("search/not-found/"+class, "rules %v: query %s->%s (%s, query #%d of %v) returned no chain although one exists", rules, q.From, q.To, mode, qi, queries[:qi+1])
			return false
		}
		if len(got) > 0 {
			if why := c15valid(rules, got, q.From, q.To); why != "" {
				sig := "search/invalid-chain/" + class
				if !want {
					sig = "search/chain-but-none-exists/" + class
				}
				res.Violate(sig, "rules %v: query %s->%s (%s, query #%d of %v) returned %v: %s", rules, q.From, q.To, mode, qi, queries[:qi+1], got, why)
				return false
			}
			if len(got) > 1 {
				res.Count("multi_step_chains_validated", 1)
			}
		}
	}
	return true
}

// c15class is the discriminating input class used in signatures.
func c15class(rules []conversion.Rule, q c15query) string {
	// substring-related: some version's short name is a proper substring of another's
	vs := map[string]bool{c15short(q.From): true, c15short(q.To): true}
	for _, r := range rules {
		vs[c15short(r.FromVersion)] = true
		vs[c15short(r.ToVersion)] = true
	}
	sub := false
	for a := range vs {
		for b := range vs {
			if a != b && strings.Contains(b, a) {
				sub = true
			}
		}
	}
	// fork: two rules share a from version
	fork := false
	for i, a := range rules {
		for j, b := range rules {
			if i < j && c15match(a.FromVersion, b.FromVersion) {
				fork = true
			}
		}
	}
	grp := false
	for _, r := range rules {
		if strings.Contains(r.FromVersion, "/") || strings.Contains(r.ToVersion, "/") {
			grp = true
		}
	}
	if strings.Contains(q.From, "/") || strings.Contains(q.To, "/") {
		grp = true
	}
	parts := []string{}
	if sub {
		parts = append(parts, "substring-versions")
	}
	if fork {
		parts = append(parts, "fork")
	}
	if grp {
		parts = append(parts, "groups")
	}
	if len(parts) == 0 {
		return "plain"
	}
	return strings.Join(parts, "+")
}

func c15allQueries(spellings []string) []c15query {
	var qs []c15query
	for _, f := range spellings {
		for _, t := range spellings {
			if !c15match(f, t) {
				qs = append(qs, c15query{f, t})
			}
		}
	}
	return qs
}

func TestC15Search(t *testing.T) {
	e := vlib.GetEnv()
	spell := []string{"v1", "v2", "v3", "g/v1", "g/v2", "g/v3"}
	var allRules []conversion.Rule
	for _, f := range spell {
		for _, to := range spell {
			if c15short(f) != c15short(to) {
				allRules = append(allRules, conversion.Rule{FromVersion: f, ToVersion: to})
			}
		}
	}
	maxRules := e.Pick(3, 4)
	// enumerate subsets of allRules of size 1..maxRules; one case per (size, first rule index)
	type pfx struct{ size, first int }
	var pfxs []pfx
	for s := 1; s <= maxRules; s++ {
		for f := 0; f+s <= len(allRules); f++ {
			pfxs = append(pfxs, pfx{s, f})
		}
	}
	queries := c15allQueries(spell)
	vlib.RunCases(t, "C15", "search-exhaustive", len(pfxs), func(c *vlib.Case) vlib.Result {
		var res vlib.Result
		p := pfxs[c.Index]
		graphs := 0
		var rec func(start int, cur []conversion.Rule) bool
		rec = func(start int, cur []conversion.Rule) bool {
			if len(cur) == p.size {
				graphs++
				// (1) every query against a fresh storage; (2) all queries in order against one storage; (3) shuffled
				for _, q := range queries {
					if !c15checkGraph(&res, cur, []c15query{q}, "fresh storage") {
						return false
					}
				}
				if !c15checkGraph(&res, cur, queries, "shared storage, lexical order") {
					return false
				}
				sh := append([]c15query(nil), queries...)
				c.Rng.Shuffle(len(sh), func(i, j int) { sh[i], sh[j] = sh[j], sh[i] })
				return c15checkGraph(&res, cur, append(sh, sh...), "shared storage, shuffled twice")
			}
			for i := start; i < len(allRules); i++ {
				if !rec(i+1, append(cur, allRules[i])) {
					return false
				}
			}
			return true
		}
		rec(p.first+1, []conversion.Rule{allRules[p.first]})
		res.Count("graphs_exhaustive", int64(graphs))
		res.Key = fmt.Sprintf("size%d-first%d", p.size, p.first)
		if c.Index%29 == 0 {
			res.Sample = map[string]any{"rules_in_graph": p.size, "first_rule": allRules[p.first].String(), "graphs": graphs, "queries_per_graph": len(queries)*4 + 0}
		}
		return res
	})

	nRand := e.Pick(80, 60000)
	vlib.RunCases(t, "C15", "search-random", nRand, func(c *vlib.Case) vlib.Result {
		var res vlib.Result
		rng := c.Rng
		var sample any
		for g := 0; g < 25; g++ {
			// versions: short names include v1 and v10 / v1beta1 so that substring confusion can occur
			shorts := []string{"v1", "v2", "v3", "v10", "v1beta1", "v2alpha1"}
			rng.Shuffle(len(shorts), func(i, j int) { shorts[i], shorts[j] = shorts[j], shorts[i] })
			shorts = shorts[:3+rng.IntN(4)]
			groups := []string{"", "", "a.io/", "b.io/"}
			sp := func(s string) string { return groups[rng.IntN(len(groups))] + s }
			nRules := 1 + rng.IntN(7)
			seen := map[conversion.Rule]bool{}
			var rules []conversion.Rule
			// shapes: chain backbone + extra random edges (forks, diamonds, cycles)
			for i := 0; i+1 < len(shorts) && len(rules) < nRules; i++ {
				if rng.IntN(4) != 0 {
					r := conversion.Rule{FromVersion: sp(shorts[i]), ToVersion: sp(shorts[i+1])}
					if !seen[r] {
						seen[r] = true
						rules = append(rules, r)
					}
				}
			}
			for len(rules) < nRules {
				a, b := shorts[rng.IntN(len(shorts))], shorts[rng.IntN(len(shorts))]
				if a == b {
					continue
				}
				r := conversion.Rule{FromVersion: sp(a), ToVersion: sp(b)}
				if !seen[r] {
					seen[r] = true
					rules = append(rules, r)
				}
			}
			var spellings []string
			for _, s := range shorts {
				spellings = append(spellings, s, "a.io/"+s, "b.io/"+s)
			}
			qs := c15allQueries(spellings)
			rng.Shuffle(len(qs), func(i, j int) { qs[i], qs[j] = qs[j], qs[i] })
			if len(qs) > 40 {
				qs = qs[:40]
			}
			if g == 0 {
				var rs []string
				for _, r := range rules {
					rs = append(rs, r.String())
				}
				sort.Strings(rs)
				sample = map[string]any{"rules": rs, "queries": len(qs)}
			}
			if !c15checkGraph(&res, rules, append(qs, qs...), "shared storage, random order, each query twice") {
				break
			}
			ok := true
			for _, q := range qs[:10] {
				if !c15checkGraph(&res, rules, []c15query{q}, "fresh storage") {
					ok = false
					break
				}
			}
			if !ok {
				break
			}
		}
		res.Count("graphs_random", 25)
		res.Key = fmt.Sprintf("rand-%d", c.Index)
		if c.Index < 3 {
			res.Sample = sample
		}
		return res
	})
}
