package checks

// C12 — hook execution contract: inputs via files, outputs read back, temp
// files gone whatever the outcome.
//
// Outcome table (fault_enumeration): exit code x content of each output file,
// one at a time and in pairs, for a hook in the main queue, in a named queue,
// and for one hook executing concurrently in two queues.

import (
	"context"
	"encoding/json"
	"fmt"
	"path/filepath"
	"sort"
	"strings"
	"sync"
	"testing"
	"testing/synctest"

	metav1 "k8s.io/apimachinery/pkg/apis/meta/v1"

	"github.com/flant/shell-operator/pkg/hook/task_metadata"
	metricstorage "github.com/flant/shell-operator/pkg/metric_storage"
	"github.com/flant/shell-operator/pkg/task"

	"verif/harness/vhk"
	"verif/harness/vlib"
)

type c12out struct {
	File  string // metrics patch admission conversion
	State string // valid truncated wrong-type unknown-op
}

type c12case struct {
	Exit   string // 0 1 2 126 killed
	Outs   []c12out
	Layout string // main named two-queues
}

func (c c12case) String() string {
	var o []string
	for _, x := range c.Outs {
		o = append(o, x.File+"="+x.State)
	}
	if len(o) == 0 {
		o = []string{"untouched"}
	}
	return fmt.Sprintf("exit=%s/%s/%s", c.Exit, strings.Join(o, "+"), c.Layout)
}

func c12content(o c12out, id string) string {
	switch o.File + "/" + o.State {
	case "metrics/valid":
		return fmt.Sprintf(`{"name":"c12_metric","action":"set","value":7,"labels":{"e":"%s"}}`, id)
	case "metrics/truncated":
		return `{"name":"c12_metric","action":"set","val`
	case "metrics/wrong-type":
		return `[1,2,3]`
	case "patch/valid":
		return fmt.Sprintf(`{"operation":"CreateOrUpdate","object":{"apiVersion":"v1","kind":"ConfigMap","metadata":{"name":"patched-%s","namespace":"default"},"data":{"a":"b"}}}`, id)
	case "patch/truncated":
		return `{"operation":"CreateOrUpdate","object":{"apiVersion":"v1",`
	case "patch/wrong-type":
		return `[1,2,3]`
	case "patch/unknown-op":
		return `{"operation":"Annihilate","kind":"ConfigMap","name":"x"}`
	case "admission/valid":
		return `{"allowed":true}`
	case "admission/truncated":
		return `{"allowed":tr`
	case "admission/wrong-type":
		return `{"allowed":"yes"}`
	case "conversion/valid":
		return `{"convertedObjects":[]}`
	case "conversion/truncated":
		return `{"convertedObjects":[`
	case "conversion/wrong-type":
		return `{"convertedObjects":"none"}`
	}
	return ""
}

func TestC12(t *testing.T) {
	e := vlib.GetEnv()
	var outsets [][]c12out
	outsets = append(outsets, nil)
	files := []string{"metrics", "patch", "admission", "conversion"}
	states := func(f string) []string {
		s := []string{"valid", "truncated", "wrong-type"}
		if f == "patch" {
			s = append(s, "unknown-op")
		}
		return s
	}
	for _, f := range files {
		for _, s := range states(f) {
			outsets = append(outsets, []c12out{{f, s}})
		}
	}
	for i, f1 := range files {
		for _, f2 := range files[i+1:] {
			for _, s1 := range states(f1) {
				for _, s2 := range states(f2) {
					outsets = append(outsets, []c12out{{f1, s1}, {f2, s2}})
				}
			}
		}
	}
	var cat []c12case
	for _, ex := range []string{"0", "1", "2", "126", "killed"} {
		for i, os := range outsets {
			cat = append(cat, c12case{Exit: ex, Outs: os, Layout: []string{"main", "named", "two-queues"}[(i+len(ex))%3]})
		}
	}
	n := len(cat) * 27 // thorough: the whole catalogue under each of the three layouts, nine times (timing varies)
	if e.Tier == "quick" {
		n = 128
	}
	vlib.RunCases(t, "C12", "contract", n, func(c *vlib.Case) vlib.Result {
		var res vlib.Result
		idx := c.Index
		if e.Tier == "quick" {
			// spread over the catalogue deterministically, different part per seed
			idx = (c.Index*37 + int(c.Seed)*11) % len(cat)
		}
		cs := cat[idx%len(cat)]
		if e.Tier != "quick" {
			cs.Layout = []string{"main", "named", "two-queues"}[(idx/len(cat))%3]
		}
		c12run(c, cs, &res)
		res.Key = cs.String()
		return res
	})
}

const (
	c12cronA = "40 1 1 1 *"
	c12cronB = "41 1 1 1 *"
)

func c12run(c *vlib.Case, cs c12case, res *vlib.Result) {
	hs := vlib.NewHookSet(c.Dir, "hooks")
	qA, qB := "", ""
	switch cs.Layout {
	case "named":
		qA = "qa"
	case "two-queues":
		qA, qB = "qa", "qb"
	}
	sA := m{"name": "sA", "crontab": c12cronA}
	if qA != "" {
		sA["queue"] = qA
	}
	sch := []any{sA}
	if qB != "" {
		sch = append(sch, m{"name": "sB", "crontab": c12cronB, "queue": qB})
	}
	hs.AddHook("sub/dir/hook-x", 0o755, cfgJSON(m{"configVersion": "v1", "schedule": sch}))
	id := fmt.Sprintf("c%d", c.Index)
	d := vhk.Directive{SleepMs: 15}
	switch cs.Exit {
	case "killed":
		d.Kill = true
	default:
		fmt.Sscanf(cs.Exit, "%d", &d.Exit)
	}
	for _, o := range cs.Outs {
		txt := c12content(o, id)
		switch o.File {
		case "metrics":
			d.Metrics = txt
		case "patch":
			d.Patch = txt
		case "admission":
			d.Admission = txt
		case "conversion":
			d.Conversion = txt
		}
	}
	// execution 0 (and, with two queues, execution 1) follow the directive; retries succeed silently
	hs.Plan("sub/dir/hook-x", 0, d)
	if cs.Layout == "two-queues" {
		hs.Plan("sub/dir/hook-x", 1, d)
	}
	hs.Plan("sub/dir/hook-x", -1, vhk.Directive{SleepMs: 2})

	type snap struct {
		Queue     string
		EnterMono int64
		ExitMono  int64
		Listing   []string
		Status    string
		Ctx       []string
	}
	var snaps []snap
	var mu sync.Mutex
	enterMono := map[string]int64{}
	var finalListing []string
	metricSeen, patchSeen := false, false
	inBubble(c, func(t *testing.T) {
		sys, err := vlib.NewSys(hs, nil)
		if err != nil {
			res.Inconclusive = "assemble: " + err.Error()
			sys.StopNow()
			return
		}
		defer sys.Stop()
		sys.Pts.On("q.handler.enter", func(ev vlib.PointEvent) {
			mu.Lock()
			enterMono[ev.Args[0].(string)] = vlib.MonoNs()
			mu.Unlock()
		})
		sys.Pts.On("q.handler.exit", func(ev vlib.PointEvent) {
			tk, _ := ev.Args[1].(task.Task)
			if tk == nil || tk.GetType() != task_metadata.HookRun {
				return
			}
			hm := task_metadata.HookMetadataAccessor(tk)
			var ids []string
			for _, bc := range hm.BindingContext {
				ids = append(ids, bc.Binding)
			}
			q := ev.Args[0].(string)
			mu.Lock()
			snaps = append(snaps, snap{Queue: q, EnterMono: enterMono[q], ExitMono: vlib.MonoNs(), Listing: hs.TmpFiles(), Status: fmt.Sprint(ev.Args[3]), Ctx: ids})
			mu.Unlock()
		})
		sys.Start()
		if !sys.Settle(100) {
			res.Inconclusive = "startup did not settle"
			return
		}
		tick(sys, c12cronA)
		if cs.Layout == "two-queues" {
			tick(sys, c12cronB)
		}
		synctest.Wait()
		if !sys.Settle(100) {
			res.Inconclusive = "did not settle after the execution"
			return
		}
		finalListing = hs.TmpFiles()
		// were valid outputs applied?
		if fams, err := sys.Op.HookMetricStorage.(*metricstorage.MetricStorage).Gatherer.Gather(); err == nil {
			for _, f := range fams {
				if f.GetName() == "c12_metric" {
					for _, mm := range f.GetMetric() {
						for _, lp := range mm.GetLabel() {
							if lp.GetName() == "e" && lp.GetValue() == id {
								metricSeen = true
							}
						}
					}
				}
			}
		}
		if _, err := sys.Cluster.Client.Dynamic().Resource(c13gvr).Namespace("default").Get(context.TODO(), "patched-"+id, metav1.GetOptions{}); err == nil {
			patchSeen = true
		}
	})
	if res.Inconclusive != "" {
		return
	}
	execs := hs.Executions()
	var trace []string
	for _, ex := range execs {
		trace = append(trace, fmt.Sprintf("%s#%d cwd=%s ctx=[%s] sizes=%v exit=%d", ex.Hook, ex.N, ex.Begin.Cwd, vlib.CtxSummary(ex.Contexts), ex.Begin.Sizes, exitOf(ex)))
	}
	for _, s := range snaps {
		trace = append(trace, fmt.Sprintf("handler exit queue=%s status=%s ctx=%v tmp=%v", s.Queue, s.Status, s.Ctx, s.Listing))
	}
	desc := func() string { return cs.String() + "\n" + strings.Join(trace, "\n") }
	if len(execs) == 0 {
		res.Violate("hook-not-executed", "%s", desc())
		return
	}
	// names unique over the whole case
	seen := map[string]string{}
	envNames := []string{"BINDING_CONTEXT_PATH", "METRICS_PATH", "KUBERNETES_PATCH_PATH", "ADMISSION_RESPONSE_PATH", "VALIDATING_RESPONSE_PATH", "CONVERSION_RESPONSE_PATH"}
	for _, ex := range execs {
		tag := fmt.Sprintf("%s#%d", ex.Hook, ex.N)
		res.Count("executions_checked", 1)
		// started in its own directory
		if want := filepath.Join(hs.Root, "sub/dir"); ex.Begin.Cwd != want {
			res.Violate("wrong-cwd", "%s started in %q, expected the hook's directory %q\n%s", tag, ex.Begin.Cwd, want, desc())
		}
		for _, en := range envNames {
			p, ok := ex.Begin.Env[en]
			if !ok || p == "" {
				res.Violate("env-missing/"+en, "%s: %s not set\n%s", tag, en, desc())
				continue
			}
			if filepath.Dir(p) != hs.Tmp {
				res.Violate("file-outside-tempdir", "%s: %s=%s is not in the temp dir\n%s", tag, en, p, desc())
			}
			if en == "VALIDATING_RESPONSE_PATH" {
				continue // documented alias of ADMISSION_RESPONSE_PATH
			}
			if prev, dup := seen[p]; dup {
				res.Violate("file-name-reused", "%s: %s=%s was already used by %s\n%s", tag, en, p, prev, desc())
			}
			seen[p] = tag + "/" + en
			sz := ex.Begin.Sizes[en]
			if sz < 0 {
				res.Violate("file-missing-at-start/"+en, "%s: %s does not exist when the hook starts\n%s", tag, p, desc())
			} else if en != "BINDING_CONTEXT_PATH" && sz != 0 {
				res.Violate("output-file-not-empty", "%s: %s has %d bytes at start\n%s", tag, en, sz, desc())
			}
		}
		if ex.CtxErr != nil || len(ex.Contexts) == 0 {
			res.Violate("context-file-unreadable", "%s: binding context file: %v (%d bytes)\n%s", tag, ex.CtxErr, len(ex.CtxRaw), desc())
		}
	}
	// context file holds exactly the contexts of the task: compare with the handler's task metadata, in order of execution per queue
	{
		var fromHandlers, fromFiles []string
		for _, s := range snaps {
			fromHandlers = append(fromHandlers, strings.Join(s.Ctx, ","))
		}
		for _, ex := range execs {
			var bs []string
			for _, cx := range ex.Contexts {
				bs = append(bs, fmt.Sprint(cx["binding"]))
			}
			fromFiles = append(fromFiles, strings.Join(bs, ","))
		}
		sort.Strings(fromHandlers)
		sort.Strings(fromFiles)
		if strings.Join(fromHandlers, "|") != strings.Join(fromFiles, "|") {
			res.Violate("context-file-differs-from-task", "contexts read by the hook processes %v, contexts of the handled tasks %v\n%s", fromFiles, fromHandlers, desc())
		}
	}
	// outcome: Fail iff non-zero exit or a malformed / unapplicable output
	wantFail := cs.Exit != "0"
	for _, o := range cs.Outs {
		if o.State != "valid" {
			wantFail = true
		}
	}
	nFirst := 1
	if cs.Layout == "two-queues" {
		nFirst = 2
	}
	// the first handler exit of every queue used is the execution under test
	firstOf := map[string]string{}
	for _, s := range snaps {
		if _, ok := firstOf[s.Queue]; !ok {
			firstOf[s.Queue] = s.Status
		}
	}
	if len(firstOf) < nFirst {
		res.Violate("handler-missing", "expected handled tasks in %d queues, saw %v\n%s", nFirst, firstOf, desc())
	}
	for q, st := range firstOf {
		if wantFail && st != "Fail" {
			res.Violate("failure-not-detected/"+c12why(cs), "queue %s: task status %s although the execution %s\n%s", q, st, c12why(cs), desc())
		}
		if !wantFail && st != "Success" {
			res.Violate("valid-execution-failed", "queue %s: task status %s for a zero exit with valid outputs\n%s", q, st, desc())
		}
	}
	// valid outputs applied after a clean run
	if !wantFail {
		for _, o := range cs.Outs {
			if o.File == "metrics" && !metricSeen {
				res.Violate("valid-metrics-not-applied", "%s", desc())
			}
			if o.File == "patch" && !patchSeen {
				res.Violate("valid-patch-not-applied", "%s", desc())
			}
		}
	}
	if cs.Exit != "0" && (metricSeen || patchSeen) {
		res.Violate("outputs-applied-after-nonzero-exit", "metric applied=%v patch applied=%v\n%s", metricSeen, patchSeen, desc())
	}
	// temp files: gone once the handler that ran the execution has returned, and at the end
	for _, ex := range execs {
		if ex.End == nil {
			continue
		}
		var own []string
		for _, en := range envNames {
			own = append(own, filepath.Base(ex.Begin.Env[en]))
		}
		// only the handler of the execution's own queue is a valid observation point: another
		// queue's handler may return while this execution's files are still being removed
		exQ := "main"
		if len(ex.Contexts) > 0 {
			switch fmt.Sprint(ex.Contexts[0]["binding"]) {
			case "sA":
				if qA != "" {
					exQ = qA
				}
			case "sB":
				exQ = qB
			}
		}
		for _, s := range snaps {
			if s.Queue == exQ && s.EnterMono <= ex.Begin.StartMono && s.ExitMono >= ex.End.EndMono {
				for _, f := range s.Listing {
					for _, o := range own {
						if f == o {
							res.Violate("temp-file-left-after-handler/"+c12why(cs), "%s#%d: %s is still in the temp dir after its handler returned\n%s", ex.Hook, ex.N, f, desc())
						}
					}
				}
				res.Count("temp_listings_checked", 1)
			}
		}
	}
	if len(finalListing) != 0 {
		res.Violate("temp-files-left-at-end/"+c12why(cs), "temp dir after the run: %v\n%s", finalListing, desc())
	}
	if c.Index < 3 {
		var ctx0 any
		_ = json.Unmarshal(execs[0].CtxRaw, &ctx0)
		res.Sample = m{"case": cs.String(), "trace": trace, "context_file_of_first_execution": ctx0}
	}
	res.Replay = m{"case": cs.String(), "trace": trace}
}

func c12why(cs c12case) string {
	if cs.Exit != "0" {
		return "exit-" + cs.Exit
	}
	for _, o := range cs.Outs {
		if o.State != "valid" {
			return o.File + "-" + o.State
		}
	}
	return "clean"
}
