package checks

// C10 — hook config: valid configs load faithfully, invalid ones are rejected,
// loading never panics.
//
//   fuzz   : arbitrary byte strings (random, dictionary-spliced, mutated valid
//            configs, deep nesting) -> never a panic; input is written to disk
//            before the call so that a fatal error names it.
//   valid  : grammar-generated valid configs; a reference loader written from
//            the documentation computes the effective config; compared field by
//            field; block YAML, flow YAML and JSON renderings load identically.
//   reject : every single-fault mutation from a table must be rejected.

import (
	"bytes"
	"encoding/json"
	"fmt"
	"os"
	"path/filepath"
	"sort"
	"strings"
	"testing"
	"time"

	yamlv3 "gopkg.in/yaml.v3"
	sigyaml "sigs.k8s.io/yaml"

	"github.com/flant/shell-operator/pkg/hook/config"

	"verif/harness/vlib"
)

type m = map[string]any

// ---- effective config as observed

func c10effective(hc *config.HookConfig) m {
	res := m{"version": hc.Version}
	if hc.OnStartup != nil {
		res["onStartup"] = m{"order": hc.OnStartup.Order, "name": hc.OnStartup.BindingName, "allowFailure": hc.OnStartup.AllowFailure}
	}
	var sch []any
	for _, s := range hc.Schedules {
		sch = append(sch, m{"name": s.BindingName, "crontab": s.ScheduleEntry.Crontab, "allowFailure": s.AllowFailure, "queue": s.Queue, "group": s.Group, "include": strs(s.IncludeSnapshotsFrom)})
	}
	res["schedule"] = sch
	var kub []any
	for _, k := range hc.OnKubernetesEvents {
		var evs []string
		for _, e := range k.Monitor.EventTypes {
			evs = append(evs, string(e))
		}
		kk := m{"name": k.BindingName, "apiVersion": k.Monitor.ApiVersion, "kind": k.Monitor.Kind, "allowFailure": k.AllowFailure, "queue": k.Queue, "group": k.Group,
			"include": strs(k.IncludeSnapshotsFrom), "events": strs(evs), "jqFilter": k.Monitor.JqFilter, "execOnSync": k.ExecuteHookOnSynchronization,
			"keepFull": k.KeepFullObjectsInMemory, "monitorKeepFull": k.Monitor.KeepFullObjectsInMemory}
		if k.Monitor.NameSelector != nil {
			kk["names"] = strs(k.Monitor.NameSelector.MatchNames)
		}
		if ns := k.Monitor.NamespaceSelector; ns != nil {
			if ns.NameSelector != nil {
				kk["nsNames"] = strs(ns.NameSelector.MatchNames)
			}
			if ns.LabelSelector != nil {
				kk["nsLabels"] = c10json(ns.LabelSelector)
			}
		}
		if k.Monitor.LabelSelector != nil {
			kk["labels"] = c10json(k.Monitor.LabelSelector)
		}
		if k.Monitor.FieldSelector != nil {
			kk["fields"] = c10json(k.Monitor.FieldSelector)
		}
		kub = append(kub, kk)
	}
	res["kubernetes"] = kub
	var val []any
	for _, v := range hc.KubernetesValidating {
		val = append(val, m{"name": v.BindingName, "group": v.Group, "include": strs(v.IncludeSnapshotsFrom), "failurePolicy": string(*v.Webhook.FailurePolicy),
			"sideEffects": string(*v.Webhook.SideEffects), "timeout": float64(*v.Webhook.TimeoutSeconds), "rules": len(v.Webhook.Rules)})
	}
	res["validating"] = val
	var mut []any
	for _, v := range hc.KubernetesMutating {
		mut = append(mut, m{"name": v.BindingName, "group": v.Group, "include": strs(v.IncludeSnapshotsFrom), "failurePolicy": string(*v.Webhook.FailurePolicy),
			"sideEffects": string(*v.Webhook.SideEffects), "timeout": float64(*v.Webhook.TimeoutSeconds), "rules": len(v.Webhook.Rules)})
	}
	res["mutating"] = mut
	var conv []any
	for _, v := range hc.KubernetesConversion {
		var rules []string
		for _, r := range v.Webhook.Rules {
			rules = append(rules, r.String())
		}
		conv = append(conv, m{"name": v.BindingName, "group": v.Group, "include": strs(v.IncludeSnapshotsFrom), "crdName": v.Webhook.CrdName, "rules": strs(rules)})
	}
	res["conversion"] = conv
	if hc.Settings != nil {
		res["settings"] = m{"interval": hc.Settings.ExecutionMinInterval.String(), "burst": float64(hc.Settings.ExecutionBurst)}
	}
	return c13norm(res).(m)
}

func strs(s []string) []any {
	res := []any{}
	for _, x := range s {
		res = append(res, x)
	}
	return res
}

func c10json(v any) any {
	b, _ := json.Marshal(v)
	var out any
	_ = json.Unmarshal(b, &out)
	return out
}

// ---- generator of valid configs (as the document a hook would print) and reference loader

type c10gen struct {
	rng interface {
		IntN(int) int
	}
}

func (g c10gen) pick(xs ...string) string { return xs[g.rng.IntN(len(xs))] }
func (g c10gen) maybe(n int) bool         { return g.rng.IntN(n) == 0 }

func (g c10gen) labelSelector() m {
	ls := m{}
	if g.maybe(2) {
		ls["matchLabels"] = m{"app": g.pick("a", "b"), "tier": "x"}
	}
	if len(ls) == 0 || g.maybe(2) {
		ls["matchExpressions"] = []any{m{"key": "env", "operator": g.pick("In", "NotIn"), "values": []any{"prod", "dev"}}, m{"key": "has", "operator": g.pick("Exists", "DoesNotExist")}}
	}
	return ls
}

// valid returns the document and the expected effective config.
func (g c10gen) valid() (doc m, expect m) {
	doc = m{"configVersion": "v1"}
	expect = m{"version": "v1"}
	if g.maybe(2) {
		n := float64(g.rng.IntN(200) - 50)
		doc["onStartup"] = n
		expect["onStartup"] = m{"order": n, "name": "onStartup", "allowFailure": false}
	}
	// kubernetes
	var kubNames []string
	var kubGroups []string
	var kubDocs, kubExp []any
	nk := g.rng.IntN(4)
	for i := 0; i < nk; i++ {
		d := m{"kind": g.pick("Pod", "ConfigMap", "Secret", "pods")}
		e := m{"kind": d["kind"], "apiVersion": "", "allowFailure": false, "queue": "main", "group": "", "jqFilter": "", "execOnSync": true, "keepFull": true, "monitorKeepFull": true,
			"events": strs([]string{"Added", "Modified", "Deleted"})}
		name := "kubernetes"
		if !g.maybe(5) || nk > 1 {
			name = fmt.Sprintf("kub%d", i)
			d["name"] = name
		}
		e["name"] = name
		if g.maybe(2) {
			d["apiVersion"] = g.pick("v1", "apps/v1")
			e["apiVersion"] = d["apiVersion"]
		}
		if g.maybe(3) {
			d["allowFailure"] = true
			e["allowFailure"] = true
		}
		if g.maybe(3) {
			d["queue"] = g.pick("q1", "q2")
			e["queue"] = d["queue"]
		}
		grp := ""
		if g.maybe(3) {
			grp = g.pick("g1", "g2")
			d["group"] = grp
			e["group"] = grp
		}
		if g.maybe(3) {
			d["jqFilter"] = g.pick(".metadata.labels", ".spec", "{a: .data}")
			e["jqFilter"] = d["jqFilter"]
		}
		if g.maybe(3) {
			evs := [][]string{{"Added"}, {"Modified", "Deleted"}, {}, {"Added", "Modified", "Deleted"}, {"Deleted"}}[g.rng.IntN(5)]
			key := g.pick("executeHookOnEvent", "watchEvent")
			d[key] = strs(evs)
			e["events"] = strs(evs)
			if key == "executeHookOnEvent" && g.maybe(2) {
				// both keys: executeHookOnEvent has priority over the deprecated watchEvent, also when it is empty
				d["watchEvent"] = strs([][]string{{"Added"}, {"Added", "Deleted"}, {"Modified"}, {}}[g.rng.IntN(4)])
			}
		}
		if g.maybe(4) {
			d["executeHookOnSynchronization"] = false
			e["execOnSync"] = false
		}
		if g.maybe(4) {
			d["keepFullObjectsInMemory"] = false
			e["keepFull"] = false
			e["monitorKeepFull"] = false
		}
		if g.maybe(4) {
			d["nameSelector"] = m{"matchNames": []any{"n1", "n2"}}
			e["names"] = strs([]string{"n1", "n2"})
		}
		if g.maybe(3) {
			if g.maybe(2) {
				d["namespace"] = m{"nameSelector": m{"matchNames": []any{"default", "kube-system"}}}
				e["nsNames"] = strs([]string{"default", "kube-system"})
			} else {
				ls := g.labelSelector()
				d["namespace"] = m{"labelSelector": ls}
				e["nsLabels"] = c10json(ls)
			}
		}
		if g.maybe(4) {
			ls := g.labelSelector()
			d["labelSelector"] = ls
			e["labels"] = c10json(ls)
		}
		if g.maybe(5) {
			fs := m{"matchExpressions": []any{m{"field": "status.phase", "operator": g.pick("=", "==", "Equals", "!=", "NotEquals"), "value": "Running"}}}
			d["fieldSelector"] = fs
			e["fields"] = c10json(fs)
		}
		kubNames = append(kubNames, name)
		kubGroups = append(kubGroups, grp)
		kubDocs = append(kubDocs, d)
		kubExp = append(kubExp, e)
	}
	if nk > 0 {
		doc["kubernetes"] = kubDocs
	}
	groupMembers := func(grp string) []string {
		var res []string
		if grp == "" {
			return res
		}
		for i, g := range kubGroups {
			if g == grp {
				res = append(res, kubNames[i])
			}
		}
		return res
	}
	merge := func(own []string, grp string) []any {
		seen := map[string]bool{}
		var res []string
		for _, x := range own {
			res = append(res, x)
			seen[x] = true
		}
		for _, x := range groupMembers(grp) {
			if !seen[x] {
				res = append(res, x)
				seen[x] = true
			}
		}
		return strs(res)
	}
	includeChoice := func() []string {
		if len(kubNames) == 0 || g.maybe(2) {
			return nil
		}
		k := 1 + g.rng.IntN(len(kubNames))
		idx := map[int]bool{}
		var res []string
		for len(res) < k {
			i := g.rng.IntN(len(kubNames))
			if !idx[i] {
				idx[i] = true
				res = append(res, kubNames[i])
			}
		}
		return res
	}
	// includeSnapshotsFrom for kubernetes bindings (needs all names)
	for i := range kubDocs {
		d, e := kubDocs[i].(m), kubExp[i].(m)
		inc := includeChoice()
		if inc != nil {
			d["includeSnapshotsFrom"] = strs(inc)
		}
		e["include"] = merge(inc, kubGroups[i])
	}
	expect["kubernetes"] = kubExp
	// schedule
	var schDocs, schExp []any
	ns := g.rng.IntN(4)
	if nk == 0 && doc["onStartup"] == nil && ns == 0 {
		ns = 1
	}
	for i := 0; i < ns; i++ {
		d := m{"crontab": g.pick("* * * * *", "*/5 * * * *", "0 0 * * 1", "*/2 * * * * *", "@hourly", "30 4 1,15 * 5")}
		e := m{"crontab": d["crontab"], "allowFailure": false, "queue": "main", "group": "", "name": "schedule"}
		if g.maybe(2) {
			d["name"] = fmt.Sprintf("sch%d", i)
			e["name"] = d["name"]
		}
		if g.maybe(3) {
			d["allowFailure"] = true
			e["allowFailure"] = true
		}
		if g.maybe(3) {
			d["queue"] = g.pick("q1", "sq")
			e["queue"] = d["queue"]
		}
		grp := ""
		if g.maybe(3) {
			grp = g.pick("g1", "g2", "g-none")
			d["group"] = grp
			e["group"] = grp
		}
		inc := includeChoice()
		if inc != nil {
			d["includeSnapshotsFrom"] = strs(inc)
		}
		e["include"] = merge(inc, grp)
		schDocs = append(schDocs, d)
		schExp = append(schExp, e)
	}
	if ns > 0 {
		doc["schedule"] = schDocs
	}
	expect["schedule"] = schExp
	// admission
	adm := func(kind string, defPolicy string, n int) ([]any, []any) {
		var docs, exps []any
		for i := 0; i < n; i++ {
			name := fmt.Sprintf("%s%d.example.com", kind[:3], i)
			d := m{"name": name}
			e := m{"name": name, "group": "", "failurePolicy": defPolicy, "sideEffects": "None", "timeout": 10.0, "rules": 0.0}
			if g.maybe(2) {
				d["rules"] = []any{m{"apiVersions": []any{"v1"}, "apiGroups": []any{""}, "resources": []any{"pods"}, "operations": []any{"CREATE", "UPDATE"}, "scope": "Namespaced"}}
				e["rules"] = 1.0
			}
			if g.maybe(3) {
				d["failurePolicy"] = g.pick("Ignore", "Fail")
				e["failurePolicy"] = d["failurePolicy"]
			}
			if g.maybe(3) {
				d["sideEffects"] = g.pick("None", "NoneOnDryRun")
				e["sideEffects"] = d["sideEffects"]
			}
			if g.maybe(3) {
				tmo := float64(1 + g.rng.IntN(30))
				d["timeoutSeconds"] = tmo
				e["timeout"] = tmo
			}
			grp := ""
			if g.maybe(3) {
				grp = g.pick("g1", "g2")
				d["group"] = grp
				e["group"] = grp
			}
			if g.maybe(4) {
				d["labelSelector"] = g.labelSelector()
			}
			if g.maybe(4) {
				d["namespace"] = m{"labelSelector": g.labelSelector()}
			}
			inc := includeChoice()
			if inc != nil {
				d["includeSnapshotsFrom"] = strs(inc)
			}
			e["include"] = merge(inc, grp)
			docs = append(docs, d)
			exps = append(exps, e)
		}
		return docs, exps
	}
	if g.maybe(3) {
		d, e := adm("validating", "Fail", 1+g.rng.IntN(2))
		doc["kubernetesValidating"] = d
		expect["validating"] = e
	} else {
		expect["validating"] = nil
	}
	if g.maybe(4) {
		d, e := adm("mutating", "Fail", 1)
		doc["kubernetesMutating"] = d
		expect["mutating"] = e
	} else {
		expect["mutating"] = nil
	}
	if g.maybe(4) {
		d := m{"name": "conv", "crdName": "crontabs.example.com", "conversions": []any{m{"fromVersion": "v1", "toVersion": "v2"}, m{"fromVersion": "example.com/v2", "toVersion": "v3"}}}
		e := m{"name": "conv", "crdName": "crontabs.example.com", "group": "", "rules": strs([]string{"v1->v2", "example.com/v2->v3"})}
		grp := ""
		if g.maybe(3) {
			grp = "g1"
			d["group"] = grp
			e["group"] = grp
		}
		inc := includeChoice()
		if inc != nil {
			d["includeSnapshotsFrom"] = strs(inc)
		}
		e["include"] = merge(inc, grp)
		doc["kubernetesCustomResourceConversion"] = []any{d}
		expect["conversion"] = []any{e}
	} else {
		expect["conversion"] = nil
	}
	if g.maybe(4) {
		iv := g.pick("100ms", "3s", "1m", "1h30m")
		burst := float64(g.rng.IntN(6))
		doc["settings"] = m{"executionMinInterval": iv, "executionBurst": burst}
		dur, _ := time.ParseDuration(iv)
		expect["settings"] = m{"interval": dur.String(), "burst": burst}
	}
	if len(doc) < 2 {
		doc["onStartup"] = 1.0
		expect["onStartup"] = m{"order": 1.0, "name": "onStartup", "allowFailure": false}
	}
	return doc, c13norm(expect).(m)
}

func c10flowYAML(doc m) string {
	var node yamlv3.Node
	b, _ := json.Marshal(doc)
	_ = yamlv3.Unmarshal(b, &node)
	var setFlow func(n *yamlv3.Node)
	setFlow = func(n *yamlv3.Node) {
		if n.Kind == yamlv3.MappingNode || n.Kind == yamlv3.SequenceNode {
			n.Style = yamlv3.FlowStyle
		} else if n.Kind == yamlv3.ScalarNode {
			n.Style = 0
			if n.Tag == "!!str" {
				n.Style = yamlv3.DoubleQuotedStyle
			}
		}
		for _, c := range n.Content {
			setFlow(c)
		}
	}
	setFlow(&node)
	var buf bytes.Buffer
	enc := yamlv3.NewEncoder(&buf)
	_ = enc.Encode(&node)
	return buf.String()
}

// c10hang is returned (as the panic value) when a load did not return: 20 s of wall clock AND at least 10 s
// of CPU burnt by this process meanwhile, for an input of a few kilobytes. The spinning goroutine is left
// behind (it cannot be stopped); the case and the worker go on.
type c10hang struct{ Wall, CPU time.Duration }

func (h c10hang) String() string {
	return fmt.Sprintf("LoadAndValidate did not return within %v (the process burnt %v of CPU meanwhile)", h.Wall.Round(time.Second), h.CPU.Round(time.Second))
}

func c10load(c *vlib.Case, data []byte) (hc *config.HookConfig, err error, panicked any) {
	_ = os.WriteFile(filepath.Join(c.Dir, "input.bin"), data, 0o644)
	type out struct {
		hc  *config.HookConfig
		err error
		p   any
	}
	ch := make(chan out, 1)
	go func() {
		var o out
		defer func() {
			if r := recover(); r != nil {
				o.p = r
			}
			ch <- o
		}()
		o.hc = &config.HookConfig{}
		o.err = o.hc.LoadAndValidate(data)
	}()
	start, cpu0 := time.Now(), processCPU()
	tk := time.NewTicker(time.Second)
	defer tk.Stop()
	for {
		select {
		case o := <-ch:
			return o.hc, o.err, o.p
		case <-tk.C:
			if w, u := time.Since(start), processCPU()-cpu0; w > 20*time.Second && u > 10*time.Second {
				return nil, nil, c10hang{w, u}
			}
		}
	}
}

// c10sig: "panic" or "neither-rejected-nor-loaded" (the load does not return).
func c10sig(p any) string {
	if _, ok := p.(c10hang); ok {
		return "neither-rejected-nor-loaded"
	}
	return "panic"
}

func c10diff(got, want m) string {
	var d []string
	keys := map[string]bool{}
	for k := range got {
		keys[k] = true
	}
	for k := range want {
		keys[k] = true
	}
	for _, k := range vlib.SortedKeys(keys) {
		g, w := vlib.JSON(got[k]), vlib.JSON(want[k])
		if g == "null" {
			g = "[]"
		}
		if w == "null" {
			w = "[]"
		}
		if (g == "[]" || g == "null") && (w == "[]" || w == "null") {
			continue
		}
		if g != w {
			d = append(d, fmt.Sprintf("%s: got %s want %s", k, g, w))
		}
	}
	return strings.Join(d, "; ")
}

func TestC10Valid(t *testing.T) {
	e := vlib.GetEnv()
	n := e.Pick(800, 120000)
	vlib.RunCases(t, "C10", "valid", n, func(c *vlib.Case) vlib.Result {
		var res vlib.Result
		g := c10gen{c.Rng}
		doc, expect := g.valid()
		jsonB, _ := json.Marshal(doc)
		blockB, _ := sigyaml.Marshal(doc)
		flow := c10flowYAML(doc)
		renderings := map[string][]byte{"json": jsonB, "block-yaml": blockB, "flow-yaml": []byte(flow)}
		effs := map[string]m{}
		for _, name := range []string{"json", "block-yaml", "flow-yaml"} {
			hc, err, p := c10load(c, renderings[name])
			res.Count("configs_loaded", 1)
			if p != nil {
				res.Violate(c10sig(p)+"/valid-config", "%s rendering:\n%s\n%v", name, renderings[name], p)
				continue
			}
			if err != nil {
				res.Violate("valid-config-rejected/"+name, "%s rendering:\n%s\nerror: %v", name, renderings[name], err)
				continue
			}
			eff := c10effective(hc)
			effs[name] = eff
			if d := c10diff(eff, expect); d != "" {
				res.Violate("effective-config/"+c10firstKey(d), "%s rendering:\n%s\ndiffers from the reference effective config: %s", name, renderings[name], d)
			}
		}
		if j, ok := effs["json"]; ok {
			for _, name := range []string{"block-yaml", "flow-yaml"} {
				if o, ok := effs[name]; ok && vlib.JSON(o) != vlib.JSON(j) {
					res.Violate("yaml-json-differ/"+name, "json:\n%s\n%s:\n%s\neffective configs differ: %s", jsonB, name, renderings[name], c10diff(o, j))
				}
			}
		}
		sections := vlib.SortedKeys(doc)
		res.Key = strings.Join(sections, "+") + fmt.Sprintf("-%d", len(jsonB)/40)
		if c.Index < 3 {
			res.Sample = m{"block_yaml": string(blockB), "flow_yaml": flow, "expected_effective": expect}
		}
		res.Replay = m{"doc": doc}
		return res
	})
}

func c10firstKey(d string) string {
	if i := strings.IndexByte(d, ':'); i > 0 {
		return d[:i]
	}
	return "?"
}

// ---- single-fault mutations that must be rejected

type c10fault struct {
	Name  string
	Apply func(doc m) bool // returns false if the base lacks the needed section
}

func c10first(doc m, section string) m {
	if l, ok := doc[section].([]any); ok && len(l) > 0 {
		return l[0].(m)
	}
	return nil
}

// c10objects collects every JSON object of the document with its path, except the free-form maps of the
// schema (label maps).
func c10objects(v any, path string, out *[]struct {
	Path string
	Obj  m
}) {
	switch x := v.(type) {
	case map[string]any:
		if !strings.HasSuffix(path, "matchLabels") {
			*out = append(*out, struct {
				Path string
				Obj  m
			}{path, x})
		}
		for _, k := range vlib.SortedKeys(x) {
			if k == "matchLabels" {
				continue
			}
			c10objects(x[k], path+"/"+k, out)
		}
	case []any:
		for _, it := range x {
			c10objects(it, path+"[]", out)
		}
	}
}

// c10anywhereSeq varies the object chosen by the unknown-field/anywhere fault from case to case.
var c10anywhereSeq int

var c10faults = []c10fault{
	{"unknown-field/anywhere", func(d m) bool {
		// an unknown key in an object at any depth of the document (the schema closes every object)
		var objs []struct {
			Path string
			Obj  m
		}
		c10objects(d, "", &objs)
		if len(objs) == 0 {
			return false
		}
		c10anywhereSeq++
		o := objs[(c10anywhereSeq*7)%len(objs)]
		o.Obj["zzUnknownKey"] = "x"
		d["__where"] = o.Path
		return true
	}},
	{"unknown-field/top", func(d m) bool { d["onStartUp"] = 1.0; return true }},
	{"unknown-field/schedule", func(d m) bool {
		s := c10first(d, "schedule")
		if s == nil {
			return false
		}
		s["cron"] = "* * * * *"
		return true
	}},
	{"unknown-field/kubernetes", func(d m) bool {
		s := c10first(d, "kubernetes")
		if s == nil {
			return false
		}
		s["jqfilter"] = "."
		return true
	}},
	{"unknown-field/nameSelector", func(d m) bool {
		s := c10first(d, "kubernetes")
		if s == nil {
			return false
		}
		s["nameSelector"] = m{"matchNames": []any{"a"}, "matchName": "a"}
		return true
	}},
	{"unknown-field/settings", func(d m) bool {
		d["settings"] = m{"executionMinInterval": "1s", "executionBurst": 1.0, "burst": 2.0}
		return true
	}},
	{"bad-crontab/step-zero", func(d m) bool {
		s := c10first(d, "schedule")
		if s == nil {
			return false
		}
		c10anywhereSeq++
		s["crontab"] = []string{"*/0 * * * *", "1-5/0 * * * * *", "* * 0/0 * *", "*/2,*/0 * * * *"}[c10anywhereSeq%4]
		return true
	}},
	{"bad-crontab/words", func(d m) bool {
		s := c10first(d, "schedule")
		if s == nil {
			return false
		}
		s["crontab"] = "every five minutes"
		return true
	}},
	{"bad-crontab/too-few-fields", func(d m) bool {
		s := c10first(d, "schedule")
		if s == nil {
			return false
		}
		s["crontab"] = "* * *"
		return true
	}},
	{"bad-crontab/out-of-range", func(d m) bool {
		s := c10first(d, "schedule")
		if s == nil {
			return false
		}
		s["crontab"] = "61 * * * *"
		return true
	}},
	{"include-unknown/schedule", func(d m) bool {
		s := c10first(d, "schedule")
		if s == nil {
			return false
		}
		s["includeSnapshotsFrom"] = []any{"no-such-binding"}
		return true
	}},
	{"include-unknown/kubernetes", func(d m) bool {
		s := c10first(d, "kubernetes")
		if s == nil {
			return false
		}
		s["includeSnapshotsFrom"] = []any{"no-such-binding"}
		return true
	}},
	{"include-ambiguous", func(d m) bool {
		l, ok := d["kubernetes"].([]any)
		if !ok || len(l) < 2 {
			return false
		}
		l[0].(m)["name"] = "dup"
		l[1].(m)["name"] = "dup"
		for _, x := range l {
			delete(x.(m), "includeSnapshotsFrom")
		}
		for _, sec := range []string{"schedule", "kubernetesValidating", "kubernetesMutating", "kubernetesCustomResourceConversion"} {
			if ll, ok := d[sec].([]any); ok {
				for _, x := range ll {
					delete(x.(m), "includeSnapshotsFrom")
				}
			}
		}
		l[len(l)-1].(m)["includeSnapshotsFrom"] = []any{"dup"}
		return true
	}},
	{"label-selector/bad-operator", func(d m) bool {
		s := c10first(d, "kubernetes")
		if s == nil {
			return false
		}
		s["labelSelector"] = m{"matchExpressions": []any{m{"key": "a", "operator": "Equals", "values": []any{"b"}}}}
		return true
	}},
	{"label-selector/in-without-values", func(d m) bool {
		s := c10first(d, "kubernetes")
		if s == nil {
			return false
		}
		s["labelSelector"] = m{"matchExpressions": []any{m{"key": "a", "operator": "In"}}}
		return true
	}},
	{"label-selector/exists-with-values", func(d m) bool {
		s := c10first(d, "kubernetes")
		if s == nil {
			return false
		}
		s["labelSelector"] = m{"matchExpressions": []any{m{"key": "a", "operator": "Exists", "values": []any{"b"}}}}
		return true
	}},
	{"namespace-label-selector/bad-operator", func(d m) bool {
		s := c10first(d, "kubernetes")
		if s == nil {
			return false
		}
		s["namespace"] = m{"labelSelector": m{"matchExpressions": []any{m{"key": "a", "operator": "Gt", "values": []any{"1"}}}}}
		return true
	}},
	{"field-selector/bad-operator", func(d m) bool {
		s := c10first(d, "kubernetes")
		if s == nil {
			return false
		}
		s["fieldSelector"] = m{"matchExpressions": []any{m{"field": "metadata.name", "operator": "In", "value": "x"}}}
		delete(s, "nameSelector")
		return true
	}},
	{"version/unsupported", func(d m) bool { d["configVersion"] = "v2"; return true }},
	{"version/not-a-string", func(d m) bool { d["configVersion"] = 1.0; return true }},
	{"admission/label-selector-in-without-values", func(d m) bool {
		for _, sec := range []string{"kubernetesValidating", "kubernetesMutating"} {
			if s := c10first(d, sec); s != nil {
				s["labelSelector"] = m{"matchExpressions": []any{m{"key": "a", "operator": "In"}}}
				return true
			}
		}
		return false
	}},
	{"admission/namespace-label-selector-in-without-values", func(d m) bool {
		for _, sec := range []string{"kubernetesMutating", "kubernetesValidating"} {
			if s := c10first(d, sec); s != nil {
				s["namespace"] = m{"labelSelector": m{"matchExpressions": []any{m{"key": "a", "operator": "NotIn"}}}}
				return true
			}
		}
		return false
	}},
}

func TestC10Reject(t *testing.T) {
	e := vlib.GetEnv()
	n := e.Pick(600, 80000)
	vlib.RunCases(t, "C10", "reject", n, func(c *vlib.Case) vlib.Result {
		var res vlib.Result
		g := c10gen{c.Rng}
		f := c10faults[(c.Index/2)%len(c10faults)] // (index/2: the odd cases below must not pin the parity of the fault index)
		if c.Index%2 == 1 {
			f = c10faults[0] // every other case: an unknown key in an object chosen anywhere in the document
		}
		c10anywhereSeq = c.Rng.IntN(1 << 20)
		var doc m
		ok := false
		for try := 0; try < 60 && !ok; try++ {
			doc, _ = g.valid()
			doc = c13norm(doc).(m)
			ok = f.Apply(doc)
		}
		if !ok {
			res.Inconclusive = "no base config with the needed section after 60 tries"
			return res
		}
		where, _ := doc["__where"].(string)
		delete(doc, "__where")
		mode := []string{"json", "yaml"}[c.Rng.IntN(2)]
		var data []byte
		if mode == "json" {
			data, _ = json.Marshal(doc)
		} else {
			data, _ = sigyaml.Marshal(doc)
		}
		_, err, p := c10load(c, data)
		res.Count("mutations_checked", 1)
		if p != nil {
			res.Violate(c10sig(p)+"/"+f.Name, "config:\n%s\n%v", data, p)
		} else if err == nil {
			sig := "accepted/" + f.Name
			if where != "" {
				sig += where
			}
			res.Violate(sig, "single-fault mutation %q of a valid config was accepted:\n%s", f.Name, data)
		}
		res.Key = f.Name + "/" + mode + "/" + strings.Join(vlib.SortedKeys(doc), "+")
		if c.Index < len(c10faults) && c.Index%7 == 0 {
			res.Sample = m{"fault": f.Name, "config": string(data), "error": fmt.Sprint(err)}
		}
		res.Replay = m{"fault": f.Name, "config": string(data)}
		return res
	})
}

// ---- arbitrary bytes

func TestC10Fuzz(t *testing.T) {
	e := vlib.GetEnv()
	n := e.Pick(300, 16000)
	dict := []string{"configVersion", "v1", "v0", "onStartup", "schedule", "kubernetes", "crontab", "kind", "Pod", "name", "queue", "group", "includeSnapshotsFrom", "jqFilter",
		"executeHookOnEvent", "Added", "nameSelector", "matchNames", "namespace", "labelSelector", "matchLabels", "matchExpressions", "operator", "In", "values", "fieldSelector",
		"kubernetesValidating", "kubernetesMutating", "kubernetesCustomResourceConversion", "conversions", "fromVersion", "toVersion", "crdName", "settings", "executionMinInterval", "executionBurst",
		"rules", "operations", "CREATE", "timeoutSeconds", "failurePolicy", "onKubernetesEvent", "event", "add", "selector", "objectName", "allowFailure", "true", "false", "null", "~", "1e999", "-0", "0x10", "99999999999999999999999",
		":", "- ", "{", "}", "[", "]", ",", "\"", "'", "\n", "  ", "&a", "*a", "<<", "!!binary", "|", ">", "#", "---", "...", "\t", "\x00", "\xff"}
	vlib.RunCases(t, "C10", "fuzz", n, func(c *vlib.Case) vlib.Result {
		var res vlib.Result
		rng := c.Rng
		g := c10gen{rng}
		outcomes := map[string]int{}
		for k := 0; k < 60; k++ {
			var data []byte
			kind := rng.IntN(6)
			switch kind {
			case 0: // random bytes
				data = make([]byte, rng.IntN(200))
				for i := range data {
					data[i] = byte(rng.IntN(256))
				}
			case 1: // dictionary soup
				var sb strings.Builder
				for i := rng.IntN(60); i > 0; i-- {
					sb.WriteString(dict[rng.IntN(len(dict))])
					if rng.IntN(3) == 0 {
						sb.WriteString(" ")
					}
				}
				data = []byte(sb.String())
			case 2, 3: // mutate a valid config: byte flips, truncation, splices
				doc, _ := g.valid()
				if rng.IntN(2) == 0 {
					data, _ = json.Marshal(doc)
				} else {
					data, _ = sigyaml.Marshal(doc)
				}
				for i := 1 + rng.IntN(4); i > 0 && len(data) > 0; i-- {
					switch rng.IntN(4) {
					case 0:
						data[rng.IntN(len(data))] = byte(rng.IntN(256))
					case 1:
						data = data[:rng.IntN(len(data))]
					case 2:
						p := rng.IntN(len(data))
						data = append(append(append([]byte{}, data[:p]...), []byte(dict[rng.IntN(len(dict))])...), data[p:]...)
					case 3:
						p := rng.IntN(len(data))
						q := p + rng.IntN(len(data)-p)
						data = append(append([]byte{}, data[:p]...), data[q:]...)
					}
				}
			case 4: // type confusion: replace a random value in a valid doc
				doc, _ := g.valid()
				doc = c13norm(doc).(m)
				repl := []any{nil, true, 1e300, -1.0, "str", []any{}, m{}, []any{m{}}, m{"a": []any{1.0}}, 99999999999999999999.0}
				c10confuse(doc, rng, repl)
				data, _ = json.Marshal(doc)
			case 5: // deep nesting
				depth := 10 + rng.IntN(3000)
				open, close := "{\"a\":", "}"
				if rng.IntN(2) == 0 {
					open, close = "[", "]"
				}
				data = []byte(`{"configVersion":"v1","kubernetes":` + strings.Repeat(open, depth) + "1" + strings.Repeat(close, depth) + "}")
			}
			_, err, p := c10load(c, data)
			res.Count("inputs_tried", 1)
			switch {
			case p != nil:
				res.Violate(c10sig(p)+"/arbitrary-bytes", "input (also in %s): %v\ninput: %q", filepath.Join(c.Dir, "input.bin"), p, string(data[:min(len(data), 1200)]))
				outcomes["panic"]++
			case err != nil:
				outcomes["rejected"]++
			default:
				outcomes["accepted"]++
			}
			if len(res.Violations) > 0 {
				break
			}
		}
		var oc []string
		for _, k := range vlib.SortedKeys(outcomes) {
			oc = append(oc, fmt.Sprintf("%s=%d", k, outcomes[k]))
			res.Count("fuzz_"+k, int64(outcomes[k]))
		}
		sort.Strings(oc)
		if outcomes["rejected"] > 0 && outcomes["accepted"] > 0 {
			res.Key = fmt.Sprintf("fuzz-%d", c.Index)
		}
		if c.Index < 2 {
			res.Sample = m{"inputs": 60, "outcomes": oc}
		}
		return res
	})
}

func c10confuse(v any, rng interface{ IntN(int) int }, repl []any) bool {
	switch x := v.(type) {
	case m:
		keys := vlib.SortedKeys(x)
		if len(keys) == 0 {
			return false
		}
		k := keys[rng.IntN(len(keys))]
		if rng.IntN(3) == 0 || !c10confuse(x[k], rng, repl) {
			x[k] = repl[rng.IntN(len(repl))]
		}
		return true
	case []any:
		if len(x) == 0 {
			return false
		}
		i := rng.IntN(len(x))
		if rng.IntN(3) == 0 || !c10confuse(x[i], rng, repl) {
			x[i] = repl[rng.IntN(len(repl))]
		}
		return true
	}
	return false
}
