package checks

// C20 — hook discovery: exactly the executable files outside lib/ and hidden
// paths; names = relative paths in lexical order; --config asked exactly once;
// a failing/invalid --config fails Init with an error naming the hook.

import (
	"fmt"
	"os"
	"path/filepath"
	"sort"
	"strings"
	"testing"

	"github.com/deckhouse/deckhouse/pkg/log"

	"github.com/flant/shell-operator/pkg/hook"

	"verif/harness/vlib"
)

type c20file struct {
	Rel  string
	Mode os.FileMode
}

func c20isHook(f c20file) bool {
	if f.Mode&0o111 == 0 {
		return false
	}
	parts := strings.Split(f.Rel, "/")
	base := parts[len(parts)-1]
	if strings.HasPrefix(base, ".") {
		return false
	}
	switch filepath.Ext(base) {
	case ".yaml", ".json", ".md", ".txt":
		return false
	}
	for _, d := range parts[:len(parts)-1] {
		if d == "lib" || strings.HasPrefix(d, ".") {
			return false
		}
	}
	return true
}

var c20goodConfigs = []string{
	`{"configVersion":"v1","onStartup":1}`,
	"configVersion: v1\nonStartup: 20\n",
	`{"configVersion":"v1","schedule":[{"crontab":"* * * * *","name":"s"}]}`,
	"configVersion: v1\nschedule:\n- crontab: '*/5 * * * *'\n  queue: q1\n",
	`{"onStartup": 5}`,
}

var c20badConfigs = map[string]string{
	"garbage":         "}{ this is :: not [ a config",
	"schema-invalid":  `{"configVersion":"v1","onStartup":"soon","unknownField":1}`,
	"invalid-crontab": `{"configVersion":"v1","schedule":[{"crontab":"not a crontab"}]}`,
	"unknown-version": `{"configVersion":"v7","onStartup":1}`,
}

func seenIsDir(dirs []string, d string) bool {
	for _, x := range dirs {
		if x == d {
			return true
		}
	}
	return false
}

func TestC20(t *testing.T) {
	e := vlib.GetEnv()
	n := e.Pick(160, 60000)
	fileNames := []string{"hook", "hook", "a", "b.sh", "run.py", "x.yaml", "x.yaml.sh", "README.md", "notes.txt", "data.json", ".hidden", ".env.sh", "with space", "lib", "lib.sh", "Zed", "001-first", "conf.yml", "t.TXT"}
	dirNames := []string{"a", "b", "lib", "lib", "libx", "mylib", ".git", ".hidden", "001-dir", "sp ace", "Z", "sub"}
	modes := []os.FileMode{0o644, 0o755, 0o755, 0o700, 0o100, 0o010, 0o001, 0o666, 0o444, 0o555}
	rootNames := []string{"hooks", "hooks", "hooks", "lib", ".hooks", "my.yaml"}
	vlib.RunCases(t, "C20", "trees", n, func(c *vlib.Case) vlib.Result {
		var res vlib.Result
		rng := c.Rng
		rootName := rootNames[rng.IntN(len(rootNames))]
		hs := vlib.NewHookSet(c.Dir, rootName)
		// directories
		dirs := []string{""}
		for i := rng.IntN(8); i > 0; i-- {
			parent := dirs[rng.IntN(len(dirs))]
			if strings.Count(parent, "/") >= 3 {
				continue
			}
			d := dirNames[rng.IntN(len(dirNames))]
			if parent != "" {
				d = parent + "/" + d
			}
			dirs = append(dirs, d)
		}
		seen := map[string]bool{}
		for _, d := range dirs {
			seen[d] = true
		}
		var files []c20file
		for i := 1 + rng.IntN(24); i > 0; i-- {
			d := dirs[rng.IntN(len(dirs))]
			rel := fileNames[rng.IntN(len(fileNames))]
			if d != "" {
				rel = d + "/" + rel
			}
			if seen[rel] {
				continue
			}
			seen[rel] = true
			files = append(files, c20file{rel, modes[rng.IntN(len(modes))]})
		}
		if c.Index%4 == 1 {
			// a directory next to entries named like it plus a character that sorts before '/': a directory
			// walk visits d/... first, the lexical order of the relative paths puts d-x/... and d.sh first
			d := []string{"a", "b", "sub", "001-dir"}[rng.IntN(4)]
			parent := dirs[rng.IntN(len(dirs))]
			if parent != "" {
				d = parent + "/" + d
			}
			if !seen[d] || seenIsDir(dirs, d) {
				for _, dd := range []string{d, d + "-x"} {
					if !seenIsDir(dirs, dd) && !seen[dd] {
						dirs = append(dirs, dd)
						seen[dd] = true
					}
				}
				for _, rel := range []string{d + "/hook", d + "-x/hook", d + ".sh", d + " x"} {
					if !seen[rel] {
						seen[rel] = true
						files = append(files, c20file{rel, 0o755})
					}
				}
			}
		}
		var expected []string
		for _, f := range files {
			if c20isHook(f) {
				expected = append(expected, f.Rel)
			}
		}
		sort.Strings(expected)
		// choose a failing hook sometimes
		failing, failKind := "", ""
		if len(expected) > 0 && rng.IntN(3) == 0 {
			failing = expected[rng.IntN(len(expected))]
			kinds := append(vlib.SortedKeys(c20badConfigs), "exit1", "exit1-with-valid-output")
			failKind = kinds[rng.IntN(len(kinds))]
		}
		for _, d := range dirs {
			if d != "" {
				_ = os.MkdirAll(filepath.Join(hs.Root, d), 0o755)
			}
		}
		for _, f := range files {
			cfg := c20goodConfigs[rng.IntN(len(c20goodConfigs))]
			hs.AddHook(f.Rel, f.Mode, cfg)
			if f.Rel == failing {
				switch failKind {
				case "exit1":
					hs.SetConfig(f.Rel, "")
					hs.SetConfigExit(f.Rel, 1)
				case "exit1-with-valid-output":
					hs.SetConfigExit(f.Rel, 1)
				default:
					hs.SetConfig(f.Rel, c20badConfigs[failKind])
				}
			}
		}
		hm := hook.NewHookManager(&hook.ManagerConfig{WorkingDir: hs.Root, TempDir: hs.Tmp, Logger: log.NewNop()})
		err := hm.Init()
		names := hm.GetHookNames()
		calls := hs.ConfigCalls()
		var treeDesc []string
		for _, f := range files {
			treeDesc = append(treeDesc, fmt.Sprintf("%s(%o)", f.Rel, f.Mode))
		}
		sort.Strings(treeDesc)
		desc := fmt.Sprintf("root=%s tree=%v failing=%q(%s)", rootName, treeDesc, failing, failKind)
		rootClass := "root-plain"
		if rootName == "lib" || strings.HasPrefix(rootName, ".") {
			rootClass = "root-named-lib-or-hidden"
		}
		isExpected := map[string]bool{}
		for _, x := range expected {
			isExpected[x] = true
		}
		for h, k := range calls {
			if !isExpected[h] {
				res.Violate("executed-non-hook/"+rootClass, "%s: file %q is not a hook by the statement but was run with --config", desc, h)
			} else if k > 1 {
				res.Violate("config-asked-twice", "%s: hook %q asked for --config %d times", desc, h, k)
			}
		}
		if failing == "" {
			if err != nil {
				res.Violate("init-failed", "%s: Init failed although every hook prints a valid config: %v", desc, err)
			} else {
				if strings.Join(names, "\n") != strings.Join(expected, "\n") {
					res.Violate("hook-set/"+rootClass, "%s: hooks %q, expected %q", desc, names, expected)
				}
				for _, x := range expected {
					if calls[x] != 1 {
						res.Violate("config-not-asked-once/"+rootClass, "%s: hook %q asked for --config %d times", desc, x, calls[x])
					}
				}
			}
		} else {
			if err == nil {
				res.Violate("bad-config-accepted/"+failKind, "%s: Init succeeded", desc)
			} else if !strings.Contains(err.Error(), failing) {
				res.Violate("error-does-not-name-hook/"+failKind, "%s: error %q does not name the hook", desc, err.Error())
			}
			if calls[failing] != 1 && err != nil {
				res.Violate("failing-hook-not-asked-once", "%s: failing hook asked %d times", desc, calls[failing])
			}
			// hooks sorting before the failing one must have been asked exactly once
			for _, x := range expected {
				if x < failing && calls[x] != 1 {
					res.Violate("config-not-asked-once/"+rootClass, "%s: hook %q (before the failing one) asked %d times", desc, x, calls[x])
				}
			}
		}
		res.Count("files_generated", int64(len(files)))
		res.Count("hooks_expected", int64(len(expected)))
		res.Count("config_invocations_observed", int64(len(calls)))
		if len(expected) > 0 {
			nested, excl := 0, 0
			for _, f := range files {
				if !c20isHook(f) && f.Mode&0o111 != 0 {
					excl++
				}
			}
			for _, x := range expected {
				if strings.Contains(x, "/") {
					nested++
				}
			}
			res.Key = fmt.Sprintf("%s-h%d-nested%d-exclx%d-fail:%s", rootClass, len(expected), nested, excl, failKind)
		}
		if c.Index < 3 {
			res.Sample = map[string]any{"root": rootName, "tree": treeDesc, "expected_hooks": expected, "failing": failing, "fail_kind": failKind, "init_error": fmt.Sprint(err)}
		}
		res.Replay = map[string]any{"desc": desc, "hooks": names, "expected": expected, "calls": calls, "err": fmt.Sprint(err)}
		return res
	})
}
