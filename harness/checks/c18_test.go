package checks

// C18 — the execution rate limit from `settings` is respected.
//
// Virtual time makes the statement exact: the start time of an execution is the
// virtual instant at which its handler passed the rate limiter
// (op.afterRateLimitWait); hook processes take no virtual time. Oracle: for all
// pairs i<j of executions of one hook, j-i+1 <= B + ceil((s_j - s_i)/I).
// Every hook process must be preceded by its own wait record (no bypass).
// Hooks without settings: all queued executions start within 2 virtual seconds.
// Pattern failing-retries: a strict hook that fails four times; its retries come
// after the queue's back-off (5 s and growing), the interval is 20 s / 60 s.

import (
	"fmt"
	"math"
	"strings"
	"testing"
	"testing/synctest"
	"time"

	"verif/harness/vhk"
	"verif/harness/vlib"
)

type c18case struct {
	Interval string
	Burst    int
	Pattern  string // burst steady-slow steady-exact steady-fast bursts-with-idle
	TwoQ     bool   // second binding of the hook in another queue
	Kube     bool   // the hook also has a kubernetes binding whose events are part of the load
	NoLimit  bool   // hook without settings
}

func (c c18case) String() string {
	if c.NoLimit {
		return fmt.Sprintf("nolimit/%s/twoq=%v", c.Pattern, c.TwoQ)
	}
	return fmt.Sprintf("I=%s/B=%d/%s/twoq=%v/kube=%v", c.Interval, c.Burst, c.Pattern, c.TwoQ, c.Kube)
}

const (
	c18cronH1 = "8 8 8 8 *"
	c18cronH2 = "9 9 9 9 *"
	c18cronO  = "10 10 10 10 *"
	c18cronO2 = "11 11 11 11 *"
)

func TestC18(t *testing.T) {
	e := vlib.GetEnv()
	var cat []c18case
	for _, iv := range []string{"100ms", "1s", "3s"} {
		for _, b := range []int{0, 1, 2, 5} {
			for _, p := range []string{"burst", "steady-slow", "steady-exact", "steady-fast", "bursts-with-idle"} {
				cat = append(cat, c18case{Interval: iv, Burst: b, Pattern: p, TwoQ: (len(cat)%3 == 0), Kube: (len(cat)%4 == 1)})
			}
		}
	}
	// a failing strict hook: the queue retries it after a back-off that is shorter than the interval; the
	// retries are executions like any other and must take their token
	for _, iv := range []string{"20s", "60s"} {
		for _, b := range []int{1, 2} {
			cat = append(cat, c18case{Interval: iv, Burst: b, Pattern: "failing-retries"})
		}
	}
	// the start-up Synchronization runs of a hook with several ungrouped kubernetes bindings are executions
	// of the hook like any other
	for _, iv := range []string{"1s", "3s"} {
		for _, b := range []int{1, 2} {
			cat = append(cat, c18case{Interval: iv, Burst: b, Pattern: "startup-syncs"})
		}
	}
	cat = append(cat, c18case{NoLimit: true, Pattern: "burst"}, c18case{NoLimit: true, Pattern: "burst", TwoQ: true})
	n := e.Pick(len(cat), len(cat)*60)
	vlib.RunCases(t, "C18", "rate", n, func(c *vlib.Case) vlib.Result {
		var res vlib.Result
		cs := cat[c.Index%len(cat)]
		if c.Index >= len(cat) {
			cs.TwoQ = c.Rng.IntN(2) == 0
			cs.Kube = c.Rng.IntN(3) == 0 && !cs.NoLimit
		}
		c18run(c, cs, &res)
		res.Key = cs.String()
		return res
	})
}

func c18run(c *vlib.Case, cs c18case, res *vlib.Result) {
	hs := vlib.NewHookSet(c.Dir, "hooks")
	cfg := m{"configVersion": "v1"}
	sch := []any{m{"name": "s1", "crontab": c18cronH1, "queue": "q1"}}
	if cs.TwoQ {
		sch = append(sch, m{"name": "s2", "crontab": c18cronH2, "queue": "q2"})
	}
	cfg["schedule"] = sch
	if cs.Kube {
		cfg["kubernetes"] = []any{m{"name": "k1", "apiVersion": "v1", "kind": "ConfigMap", "queue": "q1", "executeHookOnSynchronization": false}}
	}
	if cs.Pattern == "startup-syncs" {
		cfg["kubernetes"] = []any{
			m{"name": "ka", "apiVersion": "v1", "kind": "ConfigMap"},
			m{"name": "kb", "apiVersion": "v1", "kind": "ConfigMap", "queue": "q1"},
			m{"name": "kc", "apiVersion": "v1", "kind": "ConfigMap", "namespace": m{"nameSelector": m{"matchNames": []any{"default"}}}},
			m{"name": "kd", "apiVersion": "v1", "kind": "ConfigMap", "labelSelector": m{"matchLabels": m{"a": "b"}}},
		}
	}
	if !cs.NoLimit {
		cfg["settings"] = m{"executionMinInterval": cs.Interval, "executionBurst": float64(cs.Burst)}
	}
	hs.AddHook("h", 0o755, cfgJSON(cfg))
	if cs.Pattern == "failing-retries" {
		for i := 0; i < 4; i++ {
			hs.Plan("h", i, vhk.Directive{Exit: 1})
		}
	}
	// an unthrottled hook sharing the queues, so that tasks of h are never adjacent (no combining)
	hs.AddHook("o", 0o755, cfgJSON(m{"configVersion": "v1", "schedule": []any{m{"name": "o1", "crontab": c18cronO, "queue": "q1"}, m{"name": "o2", "crontab": c18cronO2, "queue": "q2"}}}))

	I, _ := time.ParseDuration(cs.Interval)
	B := cs.Burst
	if B == 0 {
		B = 1
	}
	var log []vlib.PointEvent
	injected := 0
	var injectEnd time.Time
	inBubble(c, func(t *testing.T) {
		sys, err := vlib.NewSys(hs, nil)
		if err != nil {
			res.Inconclusive = "assemble: " + err.Error()
			sys.StopNow()
			return
		}
		defer sys.Stop()
		sys.Pts.Record("op.afterRateLimitWait", "q.handler.enter")
		sys.Start()
		if !sys.Settle(100) {
			res.Inconclusive = "startup did not settle"
			return
		}
		// let the bucket fill completely before the load starts
		if !cs.NoLimit {
			time.Sleep(time.Duration(B+1) * I)
			synctest.Wait()
		}
		fire := func(k int) {
			// one trigger for h followed by one for o in the same queue(s)
			if cs.Kube && k%3 == 2 {
				_ = createCM(sys, "default", fmt.Sprintf("obj%d", k), 1)
			} else {
				tick(sys, c18cronH1)
			}
			tick(sys, c18cronO)
			if cs.TwoQ {
				tick(sys, c18cronH2)
				tick(sys, c18cronO2)
				injected++
			}
			injected++
		}
		switch cs.Pattern {
		case "burst":
			for k := 0; k < 30; k++ {
				fire(k)
			}
		case "steady-slow", "steady-exact", "steady-fast":
			gap := map[string]time.Duration{"steady-slow": 2 * I, "steady-exact": I, "steady-fast": I / 3}[cs.Pattern]
			for k := 0; k < 24; k++ {
				fire(k)
				time.Sleep(gap)
			}
		case "startup-syncs":
			// nothing is injected: the four Synchronization runs of the start-up are the load
			for k := 0; k < 8; k++ {
				sys.Advance(I)
			}
		case "failing-retries":
			fire(0)
			for k := 0; k < 12; k++ {
				sys.Advance(I)
			}
		case "bursts-with-idle":
			for r := 0; r < 3; r++ {
				for k := 0; k < 8; k++ {
					fire(r*8 + k)
				}
				time.Sleep(time.Duration(B+2) * I) // refill
				synctest.Wait()
			}
		}
		synctest.Wait()
		injectEnd = time.Now()
		sys.Settle(400)
		log = sys.Pts.Log()
	})
	if res.Inconclusive != "" {
		return
	}
	var starts []time.Time
	for _, ev := range log {
		if ev.Name == "op.afterRateLimitWait" && ev.Args[0].(string) == "h" {
			starts = append(starts, ev.VT)
		}
	}
	nExec, nCtx := 0, 0
	for _, ex := range hs.Executions() {
		if ex.Hook == "h" {
			nExec++
			nCtx += len(ex.Contexts)
		}
	}
	res.Count("executions_of_limited_hook", int64(nExec))
	res.Count("triggers_injected", int64(injected))
	desc := func() string {
		var ss []string
		for _, s := range starts {
			ss = append(ss, s.Format("04:05.000"))
		}
		return fmt.Sprintf("%s: %d triggers, %d executions, start instants (virtual): %s", cs.String(), injected, nExec, strings.Join(ss, " "))
	}
	if nExec > len(starts) {
		res.Violate("execution-bypassed-limiter", "%d hook processes but only %d passes through the rate limiter\n%s", nExec, len(starts), desc())
	}
	// adjacent tasks of the hook may legally be combined into one execution (C07):
	// count delivered binding contexts, not executions
	if nCtx < injected {
		res.Violate("executions-missing", "only %d binding contexts of %d triggers were delivered within the run\n%s", nCtx, injected, desc())
	}
	if cs.NoLimit {
		if len(starts) > 0 {
			spread := starts[len(starts)-1].Sub(injectEnd)
			if spread > 2*time.Second {
				res.Violate("unthrottled-hook-delayed", "hook without settings: last of %d executions started %v after the last trigger\n%s", len(starts), spread, desc())
			}
		}
	} else {
		pairs := 0
	outer:
		for i := 0; i < len(starts); i++ {
			for j := i + 1; j < len(starts); j++ {
				pairs++
				T := starts[j].Sub(starts[i])
				bound := B + int(math.Ceil(float64(T)/float64(I)))
				if j-i+1 > bound {
					res.Violate("rate-exceeded/"+cs.Pattern, "%d executions started within %v (from #%d to #%d), bound is B + ceil(T/I) = %d + %d\n%s", j-i+1, T, i, j, B, bound-B, desc())
					break outer
				}
			}
		}
		res.Count("execution_pairs_checked", int64(pairs))
	}
	if c.Index < 3 {
		res.Sample = m{"case": cs.String(), "observed": desc()}
	}
	res.Replay = m{"case": cs.String(), "observed": desc()}
}
