package checks

import (
	"context"
	"encoding/json"
	"fmt"
	"os"
	"path/filepath"
	"runtime"
	"strings"
	"syscall"
	"testing"
	"testing/synctest"
	"time"

	metav1 "k8s.io/apimachinery/pkg/apis/meta/v1"
	"k8s.io/apimachinery/pkg/apis/meta/v1/unstructured"

	"github.com/flant/shell-operator/pkg/task"

	"verif/harness/vhk"
	"verif/harness/vlib"
)

// sysHook describes one generated hook.
type sysHook struct {
	Rel    string
	Config m
}

func cfgJSON(c m) string {
	b, _ := json.Marshal(c)
	return string(b)
}

// hIv is one handler interval of a queue worker as seen at the q.handler.* points.
type hIv struct {
	Queue       string
	Task        task.Task
	EnterSeq    int64
	ExitSeq     int64
	EnterVT     time.Time
	ExitVT      time.Time
	Status      string
	HeadAtEnter task.Task // q.GetFirst() read at enter
}

// handlerIntervals pairs q.handler.enter / q.handler.exit records per queue.
func handlerIntervals(log []vlib.PointEvent) []*hIv {
	var res []*hIv
	open := map[string]*hIv{}
	for _, ev := range log {
		switch ev.Name {
		case "q.handler.enter":
			iv := &hIv{Queue: ev.Args[0].(string), EnterSeq: ev.Seq, EnterVT: ev.VT}
			if t, ok := ev.Args[1].(task.Task); ok {
				iv.Task = t
			}
			open[iv.Queue] = iv
			res = append(res, iv)
		case "q.handler.exit":
			if iv := open[ev.Args[0].(string)]; iv != nil {
				iv.ExitSeq, iv.ExitVT = ev.Seq, ev.VT
				iv.Status = fmt.Sprint(ev.Args[3])
				delete(open, iv.Queue)
			}
		}
	}
	return res
}

func ctxLabels(cs []map[string]any) []string {
	var res []string
	for _, c := range cs {
		res = append(res, vlib.CtxSummary([]map[string]any{c}))
	}
	return res
}

func hasPrefix(long, short []string) bool {
	if len(long) < len(short) {
		return false
	}
	for i := range short {
		if long[i] != short[i] {
			return false
		}
	}
	return true
}

// cmObject builds a ConfigMap-like object with a generation stamp in its payload.
func cmObject(ns, name string, gen int, labels map[string]string) *unstructured.Unstructured {
	lbl := map[string]any{}
	for k, v := range labels {
		lbl[k] = v
	}
	return &unstructured.Unstructured{Object: map[string]any{
		"apiVersion": "v1", "kind": "ConfigMap",
		"metadata": map[string]any{"name": name, "namespace": ns, "labels": lbl},
		"data":     map[string]any{"gen": fmt.Sprint(gen)},
	}}
}

func createCM(s *vlib.Sys, ns, name string, gen int) error {
	_, err := s.Cluster.Client.Dynamic().Resource(c13gvr).Namespace(ns).Create(context.TODO(), cmObject(ns, name, gen, nil), metav1.CreateOptions{})
	return err
}

func updateCM(s *vlib.Sys, ns, name string, gen int) error {
	_, err := s.Cluster.Client.Dynamic().Resource(c13gvr).Namespace(ns).Update(context.TODO(), cmObject(ns, name, gen, nil), metav1.UpdateOptions{})
	return err
}

func deleteCM(s *vlib.Sys, ns, name string) error {
	return s.Cluster.Client.Dynamic().Resource(c13gvr).Namespace(ns).Delete(context.TODO(), name, metav1.DeleteOptions{})
}

// tick injects a schedule firing exactly as the cron goroutine does.
func tick(s *vlib.Sys, crontab string) { s.Op.ScheduleManager.Ch() <- crontab }

// inBubble runs body inside a synctest bubble with a fresh hook set; the
// operator (if created through mk) is torn down afterwards.
//
// The bubble runs in its own subtest: the testing package marks a test failed
// and calls FailNow when the race detector reported anything during it (the
// unchanged tree has benign races); that must end the bubble's subtest only,
// not the case runner. Verdicts never come from go test's PASS/FAIL.
// processCPU is the CPU time (user+system) this process has used so far.
func processCPU() time.Duration {
	var ru syscall.Rusage
	if err := syscall.Getrusage(syscall.RUSAGE_SELF, &ru); err != nil {
		return 0
	}
	return time.Duration(ru.Utime.Nano() + ru.Stime.Nano())
}

func inBubble(c *vlib.Case, body func(t *testing.T)) {
	done := make(chan struct{})
	go func() {
		defer close(done)
		c.T.Run("bubble", func(t *testing.T) {
			// The body has returned when synctest reports goroutines it left behind durably blocked (an
			// informer started by a namespace event while the operator was shutting down is never
			// stopped: its reflector stays in its watch). That is a leak at process shutdown, outside
			// every property here; it must not kill the worker process. The case keeps its verdict.
			defer func() {
				if r := recover(); r != nil {
					if msg := fmt.Sprint(r); strings.HasPrefix(msg, "deadlock: main bubble goroutine has exited") {
						vlib.BubbleLeaks.Add(1)
						return
					}
					panic(r)
				}
			}()
			synctest.Test(t, body)
		})
	}()
	// Freeze detector (real time, outside the bubble; it never decides a property): a goroutine blocked on
	// a sync.Mutex whose holder waits for a bubble timer (FactoryStore.Start holds its mutex across the
	// 100 ms cache-sync poll) stops virtual time for good. The bubble is abandoned and the case is
	// inconclusive.
	tk := time.NewTicker(5 * time.Second)
	defer tk.Stop()
	start := time.Now()
	last, lastAt := vlib.Progress.Load(), time.Now()
	cpuAt := processCPU()
	for {
		select {
		case <-done:
			return
		case <-tk.C:
			if p := vlib.Progress.Load(); p != last {
				last, lastAt = p, time.Now()
				cpuAt = processCPU()
			}
			if time.Since(start) > 60*time.Second && time.Since(lastAt) > 45*time.Second {
				// a starved machine is not a frozen bubble: a bubble that still gets (and uses) CPU time is alive
				if used := processCPU() - cpuAt; used > 2*time.Second {
					lastAt, cpuAt = time.Now(), processCPU()
					continue
				}
				// keep the goroutine dump: who waits for which lock
				buf := make([]byte, 4<<20)
				buf = buf[:runtime.Stack(buf, true)]
				dump := filepath.Join(c.Dir, "frozen-goroutines.txt")
				_ = os.WriteFile(dump, buf, 0o644)
				c.Frozen = "synctest bubble frozen: no instrumentation point hit and no CPU used for 45 s of real time (a goroutine is blocked on a mutex that is never released, or whose holder waits for a virtual timer); goroutine dump: " + dump
				return
			}
		}
	}
}

// failDirective renders a scripted failure of the given kind.
func failDirective(kind string) vhk.Directive {
	switch kind {
	case "exit1":
		return vhk.Directive{Exit: 1}
	case "exit2":
		return vhk.Directive{Exit: 2}
	case "killed":
		return vhk.Directive{Kill: true}
	case "bad-metrics":
		return vhk.Directive{Metrics: `{"name":"x","action":"set","value":`}
	case "invalid-metric-op":
		return vhk.Directive{Metrics: `{"name":"x","action":"increment","value":1}`}
	case "bad-patch":
		return vhk.Directive{Patch: `{"operation":"Annihilate","kind":"ConfigMap","name":"a"}`}
	case "bad-patch-with-valid-metrics":
		return vhk.Directive{Patch: `{"operation":"Annihilate","kind":"ConfigMap","name":"a"}`, Metrics: `{"name":"verif_ok_metric","action":"set","value":1}`}
	case "patch-cannot-apply-with-valid-metrics":
		return vhk.Directive{Patch: `{"operation":"Create","object":{"apiVersion":"v1","kind":"ConfigMap","metadata":{"name":"preexisting","namespace":"default"}}}`, Metrics: `{"name":"verif_ok_metric","action":"add","value":1}`}
	case "bad-metrics-with-valid-patch":
		return vhk.Directive{Metrics: `{"name":"x","action":"set","value":`, Patch: `{"operation":"CreateOrUpdate","object":{"apiVersion":"v1","kind":"ConfigMap","metadata":{"name":"made-by-failing-run","namespace":"default"}}}`}
	case "bad-admission-response":
		// "its patch/metric/response output cannot be parsed": the response files are read back after every run
		return vhk.Directive{Admission: `{"allowed":tr`}
	case "bad-conversion-response":
		return vhk.Directive{Conversion: `{"failedMessage":`}
	case "patch-cannot-apply":
		return vhk.Directive{Patch: `{"operation":"Create","object":{"apiVersion":"v1","kind":"ConfigMap","metadata":{"name":"preexisting","namespace":"default"}}}`}
	}
	return vhk.Directive{Exit: 1}
}

var failKinds = []string{"exit1", "exit2", "killed", "bad-metrics", "invalid-metric-op", "bad-patch", "patch-cannot-apply", "bad-patch-with-valid-metrics", "patch-cannot-apply-with-valid-metrics", "bad-metrics-with-valid-patch", "bad-admission-response", "bad-conversion-response"}

func joinLabels(l []string) string { return strings.Join(l, ",") }
