package checks

// C14, overlapping requests — the API server sends admission requests
// concurrently; each is served by its own hook run on the request's goroutine.
// Two requests for the same binding overlap: the first hook run writes "deny"
// and lingers, the second starts meanwhile, writes "allow" and lingers longer.
// Each answer must carry the verdict its own hook run wrote (and its own uid).
// The runs are real processes (virtual time stands still while they run); the
// harness only spaces the two requests by a real-time pause, which shapes the
// interleaving but never decides: on a correct tree every spacing gives the
// same answers.

import (
	"bytes"
	"encoding/json"
	"fmt"
	"net/http/httptest"
	"strings"
	"testing"
	"time"

	"verif/harness/vhk"
	"verif/harness/vlib"
)

func TestC14Concurrent(t *testing.T) {
	e := vlib.GetEnv()
	n := e.Pick(6, 120)
	vlib.RunCases(t, "C14", "overlapping-requests", n, func(c *vlib.Case) vlib.Result {
		var res vlib.Result
		mutating := c.Index%2 == 1
		parkedBeforeRun := c.Index%3 == 2
		section := "kubernetesValidating"
		if mutating {
			section = "kubernetesMutating"
		}
		hs := vlib.NewHookSet(c.Dir, "hooks")
		id := "both.example.com"
		hs.AddHook("adm", 0o755, cfgJSON(m{"configVersion": "v1", section: []any{m{"name": id, "rules": []any{m{"apiGroups": []any{""}, "apiVersions": []any{"v1"}, "operations": []any{"CREATE"}, "resources": []any{"pods"}, "scope": "Namespaced"}}}}}))
		// first run: deny, lingers 1.2 s after writing; second run: allow, lingers 2.4 s
		firstDeny := c.Index%4 < 2
		verdicts := []bool{!firstDeny, firstDeny}
		for i, allow := range verdicts {
			body := `{"allowed":false,"message":"run ` + fmt.Sprint(i) + ` says no"}`
			if allow {
				body = `{"allowed":true}`
			}
			hs.Plan("adm", i, vhk.Directive{Admission: body, SleepAfterMs: 1200 * (i + 1)})
		}
		type ans struct {
			Code int
			Body []byte
		}
		answers := make([]ans, 2)
		inBubble(c, func(t *testing.T) {
			sys, err := vlib.NewSys(hs, nil)
			if err != nil {
				res.Inconclusive = "assemble: " + err.Error()
				sys.StopNow()
				return
			}
			defer sys.Stop()
			sys.Start()
			if !sys.Settle(100) {
				res.Inconclusive = "startup did not settle"
				return
			}
			if sys.Op.AdmissionWebhookManager == nil || sys.Op.AdmissionWebhookManager.Handler == nil {
				res.Inconclusive = "admission handler not initialised"
				return
			}
			router := sys.Op.AdmissionWebhookManager.Handler.Router
			done := make(chan int, 2)
			send := func(i int) {
				review := m{"apiVersion": "admission.k8s.io/v1", "kind": "AdmissionReview", "request": m{
					"uid": fmt.Sprintf("overlap-%d-%d", c.Index, i), "kind": m{"group": "", "version": "v1", "kind": "Pod"}, "resource": m{"group": "", "version": "v1", "resource": "pods"},
					"name": "p", "namespace": "default", "operation": "CREATE", "object": m{"apiVersion": "v1", "kind": "Pod", "metadata": m{"name": "p", "namespace": "default"}},
				}}
				b, _ := json.Marshal(review)
				rec := httptest.NewRecorder()
				hreq := httptest.NewRequest("POST", "/hooks/"+strings.ReplaceAll(id, ".", "-"), bytes.NewReader(b))
				hreq.Header.Set("Content-Type", "application/json")
				router.ServeHTTP(rec, hreq)
				answers[i] = ans{rec.Code, rec.Body.Bytes()}
				done <- i
			}
			if parkedBeforeRun {
				// the first request is held right before its hook run starts (task built, context file not yet
				// written); the second request is served completely meanwhile; then the first continues
				gate := vlib.NewGate()
				defer gate.Release()
				sys.Pts.On("op.afterRateLimitWait", func(ev vlib.PointEvent) {
					if ev.Args[0].(string) == "adm" {
						gate.Park()
					}
				})
				go send(0)
				<-gate.Arrived
				go send(1)
				<-done
				gate.Release()
				<-done
			} else {
				go send(0)
				// the second request arrives while the first hook run lingers after having written its answer
				for i := 0; i < 200; i++ {
					realSleep(10 * time.Millisecond)
					if len(hs.Executions()) >= 1 {
						break
					}
				}
				realSleep(300 * time.Millisecond)
				go send(1)
				<-done
				<-done
			}
		})
		if res.Inconclusive != "" {
			return res
		}
		execs := hs.Executions()
		overlap := len(execs) == 2 && execs[0].End != nil && execs[1].Begin.StartMono < execs[0].End.EndMono
		desc := fmt.Sprintf("two overlapping requests to one %s binding: run 0 writes allowed=%v and lingers 1.2 s, run 1 writes allowed=%v and lingers 2.4 s (runs overlapped: %v)\nanswer 0: HTTP %d %s\nanswer 1: HTTP %d %s", section, verdicts[0], verdicts[1], overlap, answers[0].Code, bytes.TrimSpace(answers[0].Body), answers[1].Code, bytes.TrimSpace(answers[1].Body))
		// every hook run must have been given the review of its own request
		for _, ex := range execs {
			if len(ex.Contexts) != 1 {
				continue
			}
			rv, _ := ex.Contexts[0]["review"].(map[string]any)
			rq, _ := rv["request"].(map[string]any)
			// run N was planned for request N only when the first request's run starts first; with the first
			// request parked before its run, the second request's run is execution 0
			want := ex.N
			if parkedBeforeRun {
				want = 1 - ex.N
			}
			res.Count("overlapping_contexts_checked", 1)
			if fmt.Sprint(rq["uid"]) != fmt.Sprintf("overlap-%d-%d", c.Index, want) {
				res.Violate("overlap/hook-run-got-another-requests-review", "hook run %d received the review of %v, it serves request overlap-%d-%d\n%s", ex.N, rq["uid"], c.Index, want, desc)
			}
		}
		for i, a := range answers {
			var out struct {
				Response *struct {
					UID     string `json:"uid"`
					Allowed bool   `json:"allowed"`
				} `json:"response"`
			}
			if a.Code != 200 || json.Unmarshal(a.Body, &out) != nil || out.Response == nil {
				res.Violate("overlap/no-review-answer", "request %d\n%s", i, desc)
				continue
			}
			res.Count("overlapping_answers_checked", 1)
			if out.Response.UID != fmt.Sprintf("overlap-%d-%d", c.Index, i) {
				res.Violate("overlap/uid-not-echoed", "request %d\n%s", i, desc)
			}
			vi := i
			if parkedBeforeRun {
				vi = 1 - i // request i is served by hook run 1-i
			}
			if out.Response.Allowed && !verdicts[vi] {
				res.Violate("overlap/allowed-although-own-hook-run-denied", "request %d was answered allowed=true, its own hook run wrote a denial\n%s", i, desc)
			} else if !out.Response.Allowed && verdicts[vi] {
				res.Violate("overlap/denied-although-own-hook-run-allowed", "request %d was answered allowed=false, its own hook run allowed it\n%s", i, desc)
			}
		}
		if overlap {
			res.Key = fmt.Sprintf("%s-firstDeny=%v", section, firstDeny)
		}
		if c.Index < 2 {
			res.Sample = m{"case": desc}
		}
		res.Replay = m{"case": desc}
		return res
	})
}
