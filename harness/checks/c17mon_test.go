package checks

// C17, stop during monitor creation — shutdown is requested while the main
// queue's worker is inside an EnableKubernetesBindings handler (AddMonitor →
// CreateInformers, held there like a slow API round-trip) and another queue has
// a handler in flight with a backlog behind it. The other queue must finish the
// handler in flight and start nothing else: the stop request must reach the
// queues although one handler is stuck in the kube events manager.
//
// Shutdown() runs on its own goroutine. A Shutdown that blocks on a mutex held
// by the parked handler would freeze virtual time, therefore the harness does not
// call synctest.Wait() / time.Sleep() in that window: it lets real time pass
// (nanosleep) while it waits for the signal that the stop request has reached the
// queue set (an idle queue's worker leaves); the verdict is the order of point
// hits (handler entries of the backlog queue after the stop request). Real time
// only bounds that wait (5 s): on a correct tree the signal always comes first.

import (
	"fmt"
	"strings"
	"sync/atomic"
	"syscall"
	"testing"
	"testing/synctest"
	"time"

	"verif/harness/vlib"
)

func realSleep(d time.Duration) {
	ts := syscall.NsecToTimespec(d.Nanoseconds())
	_ = syscall.Nanosleep(&ts, nil)
}

func TestC17MonitorCreation(t *testing.T) {
	e := vlib.GetEnv()
	n := e.Pick(12, 400)
	vlib.RunCases(t, "C17", "stop-during-monitor-creation", n, func(c *vlib.Case) vlib.Result {
		var res vlib.Result
		rng := c.Rng
		hs := vlib.NewHookSet(c.Dir, "hooks")
		nBack := 3 + rng.IntN(6)
		var crons []string
		for i := 0; i < nBack; i++ {
			cr := fmt.Sprintf("%d 4 4 4 *", 10+i)
			crons = append(crons, cr)
			// distinct hooks: adjacent tasks of one hook would be combined into one execution
			hs.AddHook(fmt.Sprintf("a%02d", i), 0o755, cfgJSON(m{"configVersion": "v1", "schedule": []any{m{"name": "s", "crontab": cr, "queue": "qb"}}}))
		}
		// an idle queue: its worker leaves as soon as the queues are told to stop - the signal that the stop
		// request has reached the queue set
		hs.AddHook("a-idle", 0o755, cfgJSON(m{"configVersion": "v1", "schedule": []any{m{"name": "s", "crontab": "59 4 4 4 *", "queue": "qidle"}}}))
		sel := []m{{}, {"namespace": m{"nameSelector": m{"matchNames": []any{"default"}}}}}[rng.IntN(2)]
		kb := m{"name": "k", "apiVersion": "v1", "kind": "ConfigMap"}
		for k, v := range sel {
			kb[k] = v
		}
		hs.AddHook("z-kube", 0o755, cfgJSON(m{"configVersion": "v1", "kubernetes": []any{kb}}))
		how := []string{"Shutdown", "OperatorStop"}[c.Index%2]
		var log []vlib.PointEvent
		var stopSeq, afterWindowSeq int64
		var trace []string
		armed := false
		inBubble(c, func(t *testing.T) {
			sys, err := vlib.NewSys(hs, nil)
			if err != nil {
				res.Inconclusive = "assemble: " + err.Error()
				sys.StopNow()
				return
			}
			defer sys.StopNow()
			sys.Pts.Record("q.handler.enter", "q.handler.exit", "q.worker.exit", "mon.createForNs.enter")
			addGate := vlib.NewGate()
			defer addGate.Release()
			sys.Pts.On("mon.createForNs.enter", func(ev vlib.PointEvent) { addGate.Park() })
			qbGate := vlib.NewGate()
			defer qbGate.Release()
			sys.Pts.On("q.handler.enter", func(ev vlib.PointEvent) {
				if ev.Args[0].(string) == "qb" {
					qbGate.Park()
				}
			})
			var idleGone atomic.Bool
			sys.Pts.On("q.worker.exit", func(ev vlib.PointEvent) {
				if ev.Args[0].(string) == "qidle" {
					idleGone.Store(true)
				}
			})
			sys.Start()
			if !waitHit(sys, addGate) {
				res.Inconclusive = "the monitor creation rendezvous did not arm"
				return
			}
			trace = append(trace, "main queue: EnableKubernetesBindings of z-kube parked inside AddMonitor/CreateInformers")
			tick(sys, crons[0])
			sys.Advance(600 * time.Millisecond)
			if !qbGate.Hit() {
				res.Inconclusive = "the backlog queue's rendezvous did not arm (are the schedule hooks enabled before z-kube?)"
				return
			}
			for _, cr := range crons[1:] {
				tick(sys, cr)
				synctest.Wait()
			}
			if got := len(sys.QueueTasks("qb")); got != nBack {
				res.Inconclusive = fmt.Sprintf("expected %d tasks in qb, found %d", nBack, got)
				return
			}
			armed = true
			trace = append(trace, fmt.Sprintf("queue qb: handler of a00 in flight (parked), %d tasks behind it", nBack-1))
			done := make(chan struct{})
			stopSeq = sys.Pts.NextSeq()
			go func() {
				defer close(done)
				if how == "Shutdown" {
					sys.Op.Shutdown()
				} else {
					sys.Op.Stop()
				}
			}()
			realSleep(40 * time.Millisecond) // the stop request runs as far as it gets
			qbGate.Release()                 // the handler in flight returns
			realSleep(time.Duration(150+50*nBack) * time.Millisecond)
			afterWindowSeq = sys.Pts.NextSeq()
			trace = append(trace, how+"() requested; qb's handler released; then the monitor creation is released")
			addGate.Release()
			<-done
			sys.Advance(2 * time.Second)
			log = sys.Pts.Log()
		})
		if res.Inconclusive != "" {
			return res
		}
		started, startedInWindow := 0, 0
		exited := false
		for _, ev := range log {
			q, _ := ev.Args[0].(string)
			if ev.Name == "q.handler.enter" && q == "qb" && ev.Seq > stopSeq {
				started++
				if ev.Seq < afterWindowSeq {
					startedInWindow++
				}
			}
			if ev.Name == "q.worker.exit" && q == "qb" {
				exited = true
			}
		}
		desc := strings.Join(trace, "\n")
		if started > 0 {
			res.Violate("task-started-after-stop-during-monitor-creation/"+how, "queue qb started %d task(s) after the stop request (%d of them while the main queue's handler was still inside AddMonitor); it only had to finish the handler in flight\n%s", started, startedInWindow, desc)
		}
		if !exited {
			res.Violate("worker-did-not-terminate/during-monitor-creation/"+how, "the worker of queue qb did not exit after the stop\n%s", desc)
		}
		res.Count("stops_during_monitor_creation", 1)
		if armed {
			res.Key = fmt.Sprintf("%s-back%d-%v", how, nBack, len(sel) > 0)
		}
		if c.Index < 2 {
			res.Sample = m{"case": desc, "how": how}
		}
		res.Replay = m{"case": desc, "how": how}
		return res
	})
}

// Stop before start: the stop request comes before the queues are created and started (a signal during
// start-up, a caller that stops the queue set first). Queues that are created afterwards belong to the same,
// already stopped set: nothing is executed, every worker leaves at once.
func TestC17BeforeStart(t *testing.T) {
	e := vlib.GetEnv()
	n := e.Pick(6, 60)
	vlib.RunCases(t, "C17", "stop-before-start", n, func(c *vlib.Case) vlib.Result {
		var res vlib.Result
		hs := vlib.NewHookSet(c.Dir, "hooks")
		hs.AddHook("a-startup", 0o755, cfgJSON(m{"configVersion": "v1", "onStartup": 1.0, "schedule": []any{m{"name": "s", "crontab": "31 4 4 4 *", "queue": "qa"}}}))
		hs.AddHook("b-kube", 0o755, cfgJSON(m{"configVersion": "v1", "kubernetes": []any{m{"name": "k", "apiVersion": "v1", "kind": "ConfigMap", "queue": "qb"}}}))
		how := []string{"QueuesStop", "Shutdown", "OperatorStop"}[c.Index%3]
		var log []vlib.PointEvent
		statuses := map[string]string{}
		inBubble(c, func(t *testing.T) {
			sys, err := vlib.NewSys(hs, nil)
			if err != nil {
				res.Inconclusive = "assemble: " + err.Error()
				sys.StopNow()
				return
			}
			defer sys.StopNow()
			sys.Pts.Record("q.handler.enter", "q.worker.exit")
			switch how {
			case "QueuesStop":
				sys.Op.TaskQueues.Stop()
			case "Shutdown":
				sys.Op.Shutdown()
			case "OperatorStop":
				sys.Op.Stop()
			}
			sys.Start()
			sys.Advance(2 * time.Second)
			select {
			case sys.Op.ScheduleManager.Ch() <- "31 4 4 4 *":
			default:
			}
			_ = createCM(sys, "default", "after-stop", 1)
			sys.Advance(8 * time.Second)
			log = sys.Pts.Log()
			for _, qn := range sys.QueueNames() {
				statuses[qn] = sys.Op.TaskQueues.GetByName(qn).GetStatus()
			}
		})
		if res.Inconclusive != "" {
			return res
		}
		desc := fmt.Sprintf("%s() called before the queues were created and started; queue status afterwards: %v", how, statuses)
		exited := map[string]bool{}
		for _, ev := range log {
			q, _ := ev.Args[0].(string)
			if ev.Name == "q.handler.enter" {
				res.Violate("task-started-after-stop-before-start/"+how, "queue %s entered a handler although the stop had been requested before the queues were started\n%s", q, desc)
			}
			if ev.Name == "q.worker.exit" {
				exited[q] = true
			}
		}
		if n := len(hs.Executions()); n > 0 {
			res.Violate("execution-after-stop-before-start/"+how, "%d hook executions\n%s", n, desc)
		}
		for q, st := range statuses {
			if !exited[q] {
				res.Violate("worker-did-not-terminate/before-start/"+how, "the worker of queue %s (status %q) did not leave\n%s", q, st, desc)
			}
		}
		res.Count("stops_before_start", 1)
		res.Key = how + fmt.Sprint(c.Index%2)
		return res
	})
}
