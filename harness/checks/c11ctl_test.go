package checks

// C11, controller part — the hook controllers' enable / disable of schedule
// bindings (the public API embedding operators such as addon-operator use; the
// shell-operator binary itself only ever enables).
//
// Generated histories of EnableScheduleBindings / DisableScheduleBindings over
// several hooks that share crontabs, against a recording schedule manager. After
// every step, for every crontab: CanHandleScheduleEvent and the execution infos
// of HandleScheduleEvent must be exactly those of the enabled hooks' bindings
// with that crontab (name, group, allowFailure, queue, snapshot list), and the
// set of (crontab, id) pairs registered with the schedule manager must be the
// enabled bindings' entries.

import (
	"fmt"
	"sort"
	"strings"
	"testing"

	"github.com/flant/shell-operator/pkg/hook/config"
	"github.com/flant/shell-operator/pkg/hook/controller"
	smtypes "github.com/flant/shell-operator/pkg/schedule_manager/types"

	"verif/harness/vlib"
)

type c11recSM struct {
	reg map[string]int // "crontab|id" -> registrations minus removals (never below 0)
	log []string
}

func (s *c11recSM) Stop()  {}
func (s *c11recSM) Start() {}
func (s *c11recSM) Add(e smtypes.ScheduleEntry) {
	s.reg[e.Crontab+"|"+e.Id] = 1 // the schedule manager keeps a set of ids per crontab
	s.log = append(s.log, "add "+e.Crontab+"|"+e.Id)
}
func (s *c11recSM) Remove(e smtypes.ScheduleEntry) {
	delete(s.reg, e.Crontab+"|"+e.Id)
	s.log = append(s.log, "remove "+e.Crontab+"|"+e.Id)
}
func (s *c11recSM) Ch() chan string { return nil }

func TestC11Controller(t *testing.T) {
	e := vlib.GetEnv()
	n := e.Pick(200, 40000)
	crontabs := []string{"* * * * *", "*/2 * * * *", "*/5 * * * *"}
	vlib.RunCases(t, "C11", "controller", n, func(c *vlib.Case) vlib.Result {
		var res vlib.Result
		rng := c.Rng
		sm := &c11recSM{reg: map[string]int{}}
		type bnd struct {
			Name, Crontab, Group, Queue string
			Allow                       bool
			Include                     []string
			ID                          string
		}
		type hk struct {
			Name    string
			Ctl     *controller.HookController
			Binds   []bnd
			Enabled bool
		}
		nH := 2 + rng.IntN(2)
		var hooks []*hk
		for h := 0; h < nH; h++ {
			hh := &hk{Name: fmt.Sprintf("h%d", h)}
			var sch []any
			nb := 1 + rng.IntN(3)
			for b := 0; b < nb; b++ {
				bname := fmt.Sprintf("h%ds%d", h, b)
				if c.Index%4 == 3 {
					// binding names need not be unique within a hook (unnamed schedule bindings all default to
					// "schedule"): the first two bindings of every hook share a name; each is still one task per tick
					bname = fmt.Sprintf("h%ds%d", h, b/2)
					if b == 1 {
						res.Count("same_named_schedule_bindings", 1)
					}
				}
				bb := bnd{Name: bname, Crontab: crontabs[rng.IntN(len(crontabs))], Allow: rng.IntN(3) == 0, Queue: []string{"", "qa", "qb"}[rng.IntN(3)]}
				d := m{"name": bb.Name, "crontab": bb.Crontab}
				if bb.Allow {
					d["allowFailure"] = true
				}
				if bb.Queue != "" {
					d["queue"] = bb.Queue
				}
				if rng.IntN(3) == 0 {
					bb.Group = "g"
					d["group"] = "g"
				} else if rng.IntN(2) == 0 {
					bb.Include = []string{"k"}
					d["includeSnapshotsFrom"] = []any{"k"}
				}
				sch = append(sch, d)
				hh.Binds = append(hh.Binds, bb)
			}
			hc := &config.HookConfig{}
			cfg := m{"configVersion": "v1", "schedule": sch, "kubernetes": []any{m{"name": "k", "apiVersion": "v1", "kind": "ConfigMap", "group": "g"}}}
			if err := hc.LoadAndValidate([]byte(cfgJSON(cfg))); err != nil {
				res.Inconclusive = "config: " + err.Error()
				return res
			}
			for i := range hh.Binds {
				hh.Binds[i].ID = hc.Schedules[i].ScheduleEntry.Id
				if hh.Binds[i].Queue == "" {
					hh.Binds[i].Queue = "main"
				}
				if hh.Binds[i].Group != "" {
					hh.Binds[i].Include = []string{"k"} // the group's kubernetes binding
				}
			}
			hh.Ctl = controller.NewHookController()
			hh.Ctl.InitScheduleBindings(hc.Schedules, sm)
			hooks = append(hooks, hh)
		}
		var trace []string
		check := func(step string) {
			// schedule manager registrations
			want := map[string]bool{}
			for _, hh := range hooks {
				if hh.Enabled {
					for _, b := range hh.Binds {
						want[b.Crontab+"|"+b.ID] = true
					}
				}
			}
			var wl, gl []string
			for k := range want {
				wl = append(wl, k)
			}
			for k := range sm.reg {
				gl = append(gl, k)
			}
			sort.Strings(wl)
			sort.Strings(gl)
			if strings.Join(wl, ",") != strings.Join(gl, ",") {
				res.Violate("controller/schedule-manager-registrations", "after %s: registered (crontab|id) pairs %v, the enabled bindings' entries are %v\nhistory: %v", step, gl, wl, trace)
			}
			for _, cr := range crontabs {
				for _, hh := range hooks {
					var wantInfos []string
					if hh.Enabled {
						for _, b := range hh.Binds {
							if b.Crontab == cr {
								wantInfos = append(wantInfos, fmt.Sprintf("%s group=%q allow=%v queue=%s include=%v", b.Name, b.Group, b.Allow, b.Queue, b.Include))
							}
						}
					}
					var gotInfos []string
					hh.Ctl.HandleScheduleEvent(cr, func(info controller.BindingExecutionInfo) {
						inc := info.IncludeSnapshots
						if len(inc) == 0 {
							inc = nil
						}
						ctxOK := len(info.BindingContext) == 1 && info.BindingContext[0].Binding == info.Binding && info.BindingContext[0].Metadata.Group == info.Group
						s := fmt.Sprintf("%s group=%q allow=%v queue=%s include=%v", info.Binding, info.Group, info.AllowFailure, info.QueueName, inc)
						if !ctxOK {
							s += " (binding context does not match the info)"
						}
						gotInfos = append(gotInfos, s)
					})
					sort.Strings(wantInfos)
					sort.Strings(gotInfos)
					res.Count("ticks_checked", 1)
					if strings.Join(gotInfos, ";") != strings.Join(wantInfos, ";") {
						kind := "task-for-disabled-or-foreign-binding"
						if len(gotInfos) < len(wantInfos) {
							kind = "task-missing"
						} else if len(gotInfos) == len(wantInfos) {
							kind = "task-fields"
						}
						res.Violate("controller/"+kind, "after %s, tick of %q for hook %s (enabled=%v): execution infos %v, expected %v\nhistory: %v", step, cr, hh.Name, hh.Enabled, gotInfos, wantInfos, trace)
					}
					if can := hh.Ctl.CanHandleScheduleEvent(cr); can != (len(wantInfos) > 0) {
						res.Violate("controller/can-handle", "after %s: hook %s (enabled=%v) CanHandleScheduleEvent(%q)=%v, expected %v\nhistory: %v", step, hh.Name, hh.Enabled, cr, can, len(wantInfos) > 0, trace)
					}
				}
			}
		}
		nOps := 2 + rng.IntN(8)
		shape := ""
		for i := 0; i < nOps; i++ {
			hh := hooks[rng.IntN(len(hooks))]
			if rng.IntN(5) < 3 {
				hh.Ctl.EnableScheduleBindings()
				hh.Enabled = true
				trace = append(trace, "enable "+hh.Name)
				shape += "E"
			} else {
				hh.Ctl.DisableScheduleBindings()
				hh.Enabled = false
				trace = append(trace, "disable "+hh.Name)
				shape += "D"
			}
			check(trace[len(trace)-1])
		}
		res.Key = fmt.Sprintf("h%d-%s-%d", nH, shape, c.Index%16)
		if c.Index < 2 {
			res.Sample = m{"history": trace, "schedule_manager_calls": sm.log}
		}
		return res
	})
}
