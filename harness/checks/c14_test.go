package checks

// C14 — admission webhooks fail closed and relay the hook's verdict faithfully.
//
// AdmissionReview requests are posted (httptest) to the real chi router of the
// admission webhook manager of a fully assembled operator; the registered hooks
// are vhook agents with scripted exit codes and response files. Oracle: the
// fail-closed truth table.

import (
	"bytes"
	"encoding/base64"
	"encoding/json"
	"fmt"
	"net/http/httptest"
	"strings"
	"testing"

	"verif/harness/vhk"
	"verif/harness/vlib"
)

type c14binding struct {
	Hook     string
	Name     string
	Mutating bool
	ID       string // webhook id in the path
	Include  []string
	Group    string
}

type c14req struct {
	PathKind string // own unknown-id unknown-configuration root trailing
	Exit     int
	Resp     string // empty allow allow-warnings allow-patch deny-message deny-quiet deny-warnings null emptyobj truncated wrong-types array
	Second   string // none metrics patch
}

func (r c14req) String() string {
	return fmt.Sprintf("path=%s/exit=%d/resp=%s/second=%s", r.PathKind, r.Exit, r.Resp, r.Second)
}

var c14patch = `[{"op":"add","path":"/metadata/labels/x","value":"y"}]`

func c14respBody(kind string) string {
	switch kind {
	case "allow":
		return `{"allowed":true}`
	case "allow-warnings":
		return `{"allowed":true,"warnings":["w1","second warning"]}`
	case "allow-patch":
		return `{"allowed":true,"patch":"` + base64.StdEncoding.EncodeToString([]byte(c14patch)) + `"}`
	case "deny-message":
		return `{"allowed":false,"message":"because it is Tuesday"}`
	case "deny-quiet":
		return `{"allowed":false}`
	case "deny-warnings":
		return `{"allowed":false,"message":"no, and","warnings":["careful","second warning"]}`
	case "null":
		return `null`
	case "emptyobj":
		return `{}`
	case "truncated":
		return `{"allowed":tr`
	case "wrong-types":
		return `{"allowed":"yes","warnings":"none"}`
	case "array":
		return `[{"allowed":true}]`
	}
	return ""
}

func TestC14(t *testing.T) {
	e := vlib.GetEnv()
	var reqs []c14req
	resps := []string{"empty", "allow", "allow-warnings", "allow-patch", "deny-message", "deny-quiet", "deny-warnings", "null", "emptyobj", "truncated", "wrong-types", "array"}
	for _, pk := range []string{"own", "own", "unknown-id", "unknown-configuration", "root"} {
		for _, ex := range []int{0, 1} {
			for _, r := range resps {
				for _, sec := range []string{"none", "metrics", "patch"} {
					if pk != "own" && (sec != "none" || ex != 0) {
						continue
					}
					reqs = append(reqs, c14req{PathKind: pk, Exit: ex, Resp: r, Second: sec})
				}
			}
		}
	}
	perCase := 8
	nCases := (len(reqs) + perCase - 1) / perCase
	n := e.Pick(24, nCases*300)
	vlib.RunCases(t, "C14", "admission", n, func(c *vlib.Case) vlib.Result {
		var res vlib.Result
		rng := c.Rng
		hs := vlib.NewHookSet(c.Dir, "hooks")
		nH := 1 + rng.IntN(3)
		var bindings []c14binding
		for h := 0; h < nH; h++ {
			hook := fmt.Sprintf("adm%d.sh", h)
			cfg := m{"configVersion": "v1"}
			var kubNames []string
			if rng.IntN(2) == 0 {
				var kub []any
				for k := 0; k < 1+rng.IntN(2); k++ {
					name := fmt.Sprintf("k%d", k)
					d := m{"name": name, "apiVersion": "v1", "kind": "ConfigMap", "executeHookOnSynchronization": false}
					if k == 1 {
						d["group"] = "grp"
					}
					kub = append(kub, d)
					kubNames = append(kubNames, name)
				}
				cfg["kubernetes"] = kub
			}
			var val, mut []any
			for b := 0; b < 1+rng.IntN(3); b++ {
				bd := c14binding{Hook: hook, Mutating: rng.IntN(3) == 0}
				bd.Name = fmt.Sprintf("b%d-h%d.example.com", b, h)
				bd.ID = fmt.Sprintf("b%d-h%d-example-com", b, h)
				d := m{"name": bd.Name, "rules": []any{m{"apiVersions": []any{"v1"}, "apiGroups": []any{""}, "resources": []any{"pods"}, "operations": []any{"CREATE"}, "scope": "Namespaced"}}}
				if len(kubNames) > 0 && rng.IntN(2) == 0 {
					bd.Include = []string{kubNames[0]}
					d["includeSnapshotsFrom"] = strs(bd.Include)
				} else if len(kubNames) > 1 && rng.IntN(2) == 0 {
					bd.Group = "grp"
					d["group"] = "grp"
				}
				if bd.Mutating {
					mut = append(mut, d)
				} else {
					val = append(val, d)
				}
				bindings = append(bindings, bd)
			}
			if len(val) > 0 {
				cfg["kubernetesValidating"] = val
			}
			if len(mut) > 0 {
				cfg["kubernetesMutating"] = mut
			}
			hs.AddHook(hook, 0o755, cfgJSON(cfg))
		}
		// the slice of the request table for this case
		var mine []c14req
		start := (c.Index * perCase) % len(reqs)
		for i := 0; i < perCase; i++ {
			mine = append(mine, reqs[(start+i)%len(reqs)])
		}
		var trace []string
		execCount := map[string]int{}
		inBubble(c, func(t *testing.T) {
			sys, err := vlib.NewSys(hs, nil)
			if err != nil {
				res.Inconclusive = "assemble: " + err.Error()
				sys.StopNow()
				return
			}
			defer sys.Stop()
			sys.Start()
			if !sys.Settle(100) {
				res.Inconclusive = "startup did not settle"
				return
			}
			if sys.Op.AdmissionWebhookManager == nil || sys.Op.AdmissionWebhookManager.Handler == nil {
				res.Inconclusive = "admission handler not initialised"
				return
			}
			router := sys.Op.AdmissionWebhookManager.Handler.Router
			for ri, rq := range mine {
				bd := bindings[rng.IntN(len(bindings))]
				uid := fmt.Sprintf("uid-%d-%d", c.Index, ri)
				path := "/hooks/" + bd.ID
				switch rq.PathKind {
				case "unknown-id":
					path = "/hooks/" + bd.ID + "-nope"
					if rng.IntN(2) == 0 {
						path = "/hooks/" + bd.ID[:len(bd.ID)-1] // a prefix of a registered id
					}
				case "unknown-configuration":
					path = "/otherconf/" + bd.ID
				case "root":
					path = "/"
				}
				// script the hook's next execution
				d := vhk.Directive{Exit: rq.Exit, Admission: c14respBody(rq.Resp)}
				switch rq.Second {
				case "metrics":
					d.Metrics = `{"name":"x","action":"set","val`
				case "patch":
					d.Patch = `{"operation":"Annihilate"}`
				}
				before := len(hs.Executions())
				hs.Plan(bd.Hook, execCount[bd.Hook], d)
				review := m{"apiVersion": "admission.k8s.io/v1", "kind": "AdmissionReview", "request": m{
					"uid": uid, "kind": m{"group": "", "version": "v1", "kind": "Pod"}, "resource": m{"group": "", "version": "v1", "resource": "pods"},
					"name": "p", "namespace": "default", "operation": "CREATE", "object": m{"apiVersion": "v1", "kind": "Pod", "metadata": m{"name": "p", "namespace": "default"}},
				}}
				body, _ := json.Marshal(review)
				rec := httptest.NewRecorder()
				hreq := httptest.NewRequest("POST", path, bytes.NewReader(body))
				hreq.Header.Set("Content-Type", "application/json")
				router.ServeHTTP(rec, hreq)
				execs := hs.Executions()
				ran := execs[before:]
				for _, ex := range ran {
					execCount[ex.Hook]++
				}
				kind := "validating"
				if bd.Mutating {
					kind = "mutating"
				}
				line := fmt.Sprintf("POST %s (%s binding %s of %s) %s -> HTTP %d %s; executions: %d", path, kind, bd.Name, bd.Hook, rq, rec.Code, strings.TrimSpace(rec.Body.String()), len(ran))
				trace = append(trace, line)
				res.Count("requests_sent", 1)
				c14judge(&res, rq, bd, uid, path, rec.Code, rec.Body.Bytes(), ran, kind, line)
			}
		})
		res.Key = fmt.Sprintf("slice%d-h%d-b%d", start/perCase, nH, len(bindings))
		if c.Index < 2 {
			res.Sample = m{"requests": trace}
		}
		res.Replay = m{"requests": trace}
		return res
	})
}

func c14judge(res *vlib.Result, rq c14req, bd c14binding, uid, path string, code int, body []byte, ran []*vlib.Execution, kind, line string) {
	var out struct {
		Response *struct {
			UID       string   `json:"uid"`
			Allowed   bool     `json:"allowed"`
			Warnings  []string `json:"warnings"`
			Patch     []byte   `json:"patch"`
			PatchType *string  `json:"patchType"`
			Status    *struct {
				Message string `json:"message"`
				Code    int    `json:"code"`
			} `json:"status"`
		} `json:"response"`
	}
	perr := json.Unmarshal(body, &out)
	own := rq.PathKind == "own"
	wantAllowed := own && rq.Exit == 0 && rq.Second == "none" && (rq.Resp == "allow" || rq.Resp == "allow-warnings" || rq.Resp == "allow-patch")
	cls := rq.PathKind + "/" + rq.Resp
	if code != 200 || perr != nil || out.Response == nil {
		if wantAllowed {
			res.Violate("allowed-request-not-answered/"+cls, "%s", line)
		}
		// a rejected request (4xx/5xx without a review) is a denial for the API server: fail closed
		return
	}
	r := out.Response
	if r.Allowed && !wantAllowed {
		res.Violate("allowed-without-valid-verdict/"+cls+"/exit"+fmt.Sprint(rq.Exit)+"/second="+rq.Second, "answered allowed=true although %s\n%s", c14why(rq), line)
	}
	if !r.Allowed && wantAllowed {
		res.Violate("denied-although-hook-allowed/"+cls, "%s", line)
	}
	if r.UID != uid {
		res.Violate("uid-not-echoed/"+cls, "response.uid=%q, request uid %q\n%s", r.UID, uid, line)
	}
	if own {
		// the right hook and binding ran, exactly once
		if len(ran) != 1 {
			res.Violate("hook-run-count/"+cls, "%d hook executions for one request\n%s", len(ran), line)
		} else {
			ex := ran[0]
			wantType := "Validating"
			if bd.Mutating {
				wantType = "Mutating"
			}
			if ex.Hook != bd.Hook || len(ex.Contexts) != 1 || fmt.Sprint(ex.Contexts[0]["binding"]) != bd.Name || fmt.Sprint(ex.Contexts[0]["type"]) != wantType {
				res.Violate("wrong-hook-or-binding", "request for %s of %s was handed to %s with contexts [%s]\n%s", bd.Name, bd.Hook, ex.Hook, vlib.CtxSummary(ex.Contexts), line)
			} else {
				rv, _ := ex.Contexts[0]["review"].(map[string]any)
				rqq, _ := rv["request"].(map[string]any)
				if fmt.Sprint(rqq["uid"]) != uid {
					res.Violate("review-not-relayed-to-hook", "hook saw request uid %v, sent %s\n%s", rqq["uid"], uid, line)
				}
				// snapshots keys
				want := append([]string{}, bd.Include...)
				if bd.Group != "" {
					want = append(want, "k1")
				}
				snaps, _ := ex.Contexts[0]["snapshots"].(map[string]any)
				if strings.Join(vlib.SortedKeys(snaps), ",") != strings.Join(want, ",") {
					res.Violate("wrong-snapshots-keys", "binding %s: snapshots keys %v, expected %v\n%s", bd.Name, vlib.SortedKeys(snaps), want, line)
				}
			}
		}
	} else if len(ran) != 0 {
		res.Violate("hook-ran-for-unregistered-path/"+rq.PathKind, "path %s is not registered but %s ran\n%s", path, ran[0].Hook, line)
	}
	if own && rq.Exit == 0 && rq.Second == "none" {
		switch rq.Resp {
		case "allow-warnings":
			if strings.Join(r.Warnings, "|") != "w1|second warning" {
				res.Violate("warnings-not-relayed", "warnings %v\n%s", r.Warnings, line)
			}
		case "allow-patch":
			if string(r.Patch) != c14patch {
				res.Violate("patch-not-relayed/"+kind, "patch %q\n%s", r.Patch, line)
			}
			if r.PatchType == nil || *r.PatchType != "JSONPatch" {
				res.Violate("patch-type-missing/"+kind, "%s", line)
			}
		case "deny-warnings":
			// the answer carries the hook's message and warnings whatever the verdict is
			if strings.Join(r.Warnings, "|") != "careful|second warning" {
				res.Violate("warnings-not-relayed/denied", "warnings %v\n%s", r.Warnings, line)
			}
			if r.Status == nil || r.Status.Message != "no, and" {
				res.Violate("message-not-relayed/denied-with-warnings", "%s", line)
			}
		case "deny-message":
			if r.Status == nil || r.Status.Message != "because it is Tuesday" {
				res.Violate("message-not-relayed", "%s", line)
			}
		case "allow":
			if r.PatchType != nil || len(r.Patch) > 0 {
				res.Violate("patch-invented", "%s", line)
			}
		}
	}
}

func c14why(rq c14req) string {
	switch {
	case rq.PathKind != "own":
		return "the path is not registered (" + rq.PathKind + ")"
	case rq.Exit != 0:
		return "the hook exited " + fmt.Sprint(rq.Exit)
	case rq.Second != "none":
		return "the hook's " + rq.Second + " output is malformed"
	}
	return "the response file is " + rq.Resp
}
