package checks

// C16 — hook metrics: validated as a batch; grouped metrics replaced, not
// accumulated. Oracle: a reference registry (map series -> value/group), compared
// with Gatherer.Gather() after every batch. Batches are rendered to the JSON
// stream a hook writes to $METRICS_PATH and parsed by the operator's own
// parser, exactly as Hook.Run + handleRunHook do.

import (
	"context"
	"encoding/json"
	"fmt"
	"math"
	"sort"
	"strings"
	"testing"

	"github.com/deckhouse/deckhouse/pkg/log"
	dto "github.com/prometheus/client_model/go"

	metricstorage "github.com/flant/shell-operator/pkg/metric_storage"
	"github.com/flant/shell-operator/pkg/metric_storage/operation"

	"verif/harness/vlib"
)

type c16series struct {
	Kind  string // counter gauge histogram
	Value float64
	Count uint64 // histogram
	Group string
}

type c16op struct {
	Name    string            `json:"name,omitempty"`
	Group   string            `json:"group,omitempty"`
	Action  string            `json:"action,omitempty"`
	Value   *float64          `json:"value,omitempty"`
	Add     *float64          `json:"add,omitempty"`
	Set     *float64          `json:"set,omitempty"`
	Buckets []float64         `json:"buckets,omitempty"`
	Labels  map[string]string `json:"labels,omitempty"`
	invalid bool
}

func c16key(name string, labels map[string]string) string {
	var ks []string
	for k, v := range labels {
		if v != "" {
			ks = append(ks, k+"="+v)
		}
	}
	sort.Strings(ks)
	return name + "{" + strings.Join(ks, ",") + "}"
}

func c16gather(ms *metricstorage.MetricStorage) (map[string]c16series, error) {
	fams, err := ms.Gatherer.Gather()
	res := map[string]c16series{}
	for _, f := range fams {
		for _, m := range f.GetMetric() {
			labels := map[string]string{}
			for _, lp := range m.GetLabel() {
				labels[lp.GetName()] = lp.GetValue()
			}
			k := c16key(f.GetName(), labels)
			switch f.GetType() {
			case dto.MetricType_COUNTER:
				res[k] = c16series{Kind: "counter", Value: m.GetCounter().GetValue()}
			case dto.MetricType_GAUGE:
				res[k] = c16series{Kind: "gauge", Value: m.GetGauge().GetValue()}
			case dto.MetricType_HISTOGRAM:
				res[k] = c16series{Kind: "histogram", Value: m.GetHistogram().GetSampleSum(), Count: m.GetHistogram().GetSampleCount()}
			}
		}
	}
	return res, err
}

func c16f(v float64) *float64 { return &v }

type c16metric struct {
	Name   string
	Kind   string // counter gauge histogram
	Group  string // "" = ungrouped metric name
	Labels []string
}

func TestC16(t *testing.T) {
	e := vlib.GetEnv()
	n := e.Pick(2000, 600000)
	vlib.RunCases(t, "C16", "batches", n, func(c *vlib.Case) vlib.Result {
		var res vlib.Result
		rng := c.Rng
		ms := metricstorage.NewMetricStorage(context.Background(), "p_", true, log.NewNop())
		ref := map[string]c16series{}
		hooks := []string{"h1.sh", "dir/h2.sh", "h3"}
		groups := []string{"g1", "g2", "g3"}
		// metric catalogue of the case. A name has one kind. Names are either
		// ungrouped-only or grouped (possibly used by several groups with
		// disjoint label VALUES: the label "grp" carries the group name, so two
		// groups never report the identical series at the same time).
		var catalogue []c16metric
		fractional := rng.IntN(2) == 0
		varyShape := rng.IntN(2) == 0
		// a hook may write its own `hook` label: the label the operator adds names the executing hook all the same
		ownHookLabel := rng.IntN(3) == 0
		for i := 0; i < 3; i++ {
			catalogue = append(catalogue, c16metric{Name: fmt.Sprintf("u_%s_%d", []string{"counter", "gauge", "histogram"}[i], c.Index%3), Kind: []string{"counter", "gauge", "histogram"}[i], Labels: []string{"a"}})
		}
		for i := 0; i < 3; i++ {
			kind := []string{"counter", "gauge"}[rng.IntN(2)]
			catalogue = append(catalogue, c16metric{Name: fmt.Sprintf("gm_%s_%d", kind, i), Kind: kind, Group: "*", Labels: []string{"a", "b"}})
		}
		// documented but unusual: the same metric name used inside a group and outside any group
		reusedName := ""
		if rng.IntN(6) == 0 {
			m := catalogue[3+rng.IntN(3)]
			reusedName = m.Name
			catalogue = append(catalogue, c16metric{Name: m.Name, Kind: m.Kind, Labels: []string{"a"}})
		}
		nBatches := 2 + rng.IntN(14)
		var trace []string
		classes := map[string]bool{}
		for b := 0; b < nBatches; b++ {
			hook := hooks[rng.IntN(len(hooks))]
			nOps := 1 + rng.IntN(6)
			var ops []c16op
			bGroups := []string{groups[rng.IntN(len(groups))]}
			if rng.IntN(3) == 0 {
				bGroups = append(bGroups, groups[rng.IntN(len(groups))])
			}
			for i := 0; i < nOps; i++ {
				m := catalogue[rng.IntN(len(catalogue))]
				op := c16op{Name: m.Name, Labels: map[string]string{}}
				val := float64(rng.IntN(20))
				if fractional && rng.IntN(2) == 0 {
					val += float64(1+rng.IntN(3)) / 4
					classes["fractional"] = true
				}
				lv := fmt.Sprintf("v%d", rng.IntN(3))
				op.Labels["a"] = lv
				if ownHookLabel && rng.IntN(3) == 0 {
					op.Labels["hook"] = hooks[rng.IntN(len(hooks))]
					classes["hook-label-written-by-the-hook"] = true
				}
				if m.Group == "" && m.Name == reusedName {
					op.Labels["grp"] = "none"
					classes["name-reused-grouped-and-ungrouped"] = true
				}
				if m.Group != "" {
					op.Group = bGroups[rng.IntN(len(bGroups))]
					op.Labels["grp"] = op.Group
					if varyShape && rng.IntN(3) == 0 {
						op.Labels["b"] = fmt.Sprintf("w%d", rng.IntN(2))
						classes["varying-label-shape"] = true
					} else if varyShape && rng.IntN(3) == 0 {
						// the same value under another label name: {a:"v1"} and {b:"v1"} are two series
						delete(op.Labels, "a")
						op.Labels["b"] = lv
						classes["varying-label-shape"] = true
					}
					if rng.IntN(9) == 0 {
						ops = append(ops, c16op{Group: op.Group, Action: "expire"})
						classes["explicit-expire"] = true
					}
				}
				switch m.Kind {
				case "counter":
					if rng.IntN(4) == 0 {
						op.Add = c16f(val)
						classes["add-shortcut"] = true
					} else {
						op.Action, op.Value = "add", c16f(val)
					}
				case "gauge":
					if rng.IntN(4) == 0 {
						op.Set = c16f(val)
					} else {
						op.Action, op.Value = "set", c16f(val)
					}
				case "histogram":
					op.Action, op.Value, op.Buckets = "observe", c16f(val), []float64{1, 5, 10}
				}
				ops = append(ops, op)
			}
			invalid := rng.IntN(5) == 0
			if invalid {
				classes["invalid-batch"] = true
				pos := rng.IntN(len(ops) + 1)
				var bad c16op
				switch rng.IntN(8) {
				case 0:
					bad = c16op{Name: "x", Labels: map[string]string{"a": "1"}} // no action
				case 1:
					bad = c16op{Name: "x", Action: "expire"} // expire without group
				case 2:
					bad = c16op{Name: "x", Group: "g1", Action: "observe", Value: c16f(1), Buckets: []float64{1}}
				case 3:
					bad = c16op{Action: "set", Value: c16f(1)} // no name
				case 4:
					bad = c16op{Name: "x", Action: "set"} // no value
				case 5:
					bad = c16op{Name: "x", Action: "observe", Value: c16f(1)} // no buckets
				case 6:
					bad = c16op{Name: "x", Add: c16f(1), Set: c16f(2)} // both shortcuts
				case 7:
					bad = c16op{Name: "x", Action: "increment", Value: c16f(1)}
				}
				bad.invalid = true
				ops = append(ops[:pos], append([]c16op{bad}, ops[pos:]...)...)
			}
			// render as the JSON stream of a hook and parse with the operator's parser
			var sb strings.Builder
			for _, op := range ops {
				bts, _ := json.Marshal(op)
				sb.Write(bts)
				sb.WriteString("\n")
			}
			parsed, perr := operation.MetricOperationsFromBytes([]byte(sb.String()))
			if perr != nil {
				res.Violate("parse-error", "valid JSON stream rejected: %v\n%s", perr, sb.String())
				break
			}
			err := ms.SendBatch(parsed, map[string]string{"hook": hook})
			trace = append(trace, fmt.Sprintf("batch %d hook=%s invalid=%v: %s", b, hook, invalid, strings.ReplaceAll(sb.String(), "\n", " ")))
			res.Count("batches", 1)
			res.Count("operations", int64(len(ops)))
			if invalid {
				if err == nil {
					res.Violate("invalid-batch-accepted", "batch with an invalid operation returned no error: %s", sb.String())
				}
			} else {
				if err != nil {
					res.Violate("valid-batch-rejected", "valid batch rejected: %v: %s", err, sb.String())
				}
				// reference application
				touched := map[string]bool{}
				for _, op := range ops {
					if op.Group != "" && !touched[op.Group] {
						touched[op.Group] = true
						for k, s := range ref {
							if s.Group == op.Group {
								delete(ref, k)
							}
						}
					}
				}
				// grouped ops, in order per group
				for _, op := range ops {
					if op.Group == "" {
						continue
					}
					if op.Action == "expire" {
						for k, s := range ref {
							if s.Group == op.Group {
								delete(ref, k)
							}
						}
						continue
					}
					labels := map[string]string{}
					for k, v := range op.Labels {
						labels[k] = v
					}
					labels["hook"] = hook
					k := c16key(op.Name, labels)
					s := ref[k]
					s.Group = op.Group
					if op.Action == "add" || op.Add != nil {
						s.Kind = "counter"
						if op.Add != nil {
							s.Value += *op.Add
						} else {
							s.Value += *op.Value
						}
					} else {
						s.Kind = "gauge"
						if op.Set != nil {
							s.Value = *op.Set
						} else {
							s.Value = *op.Value
						}
					}
					ref[k] = s
				}
				for _, op := range ops {
					if op.Group != "" {
						continue
					}
					labels := map[string]string{}
					for k, v := range op.Labels {
						labels[k] = v
					}
					labels["hook"] = hook
					k := c16key(op.Name, labels)
					s := ref[k]
					switch {
					case op.Action == "add" || op.Add != nil:
						s.Kind = "counter"
						if op.Add != nil {
							s.Value += *op.Add
						} else {
							s.Value += *op.Value
						}
					case op.Action == "set" || op.Set != nil:
						s.Kind = "gauge"
						if op.Set != nil {
							s.Value = *op.Set
						} else {
							s.Value = *op.Value
						}
					case op.Action == "observe":
						s.Kind = "histogram"
						s.Value += *op.Value
						s.Count++
					}
					ref[k] = s
				}
			}
			got, gerr := c16gather(ms)
			if gerr != nil {
				res.Violate("gather-error/"+c16gatherClass(classes, reusedName), "Gather() failed after batch %d: %v\ntrace:\n%s", b, gerr, strings.Join(trace, "\n"))
				break
			}
			if diff := c16diff(ref, got); diff != "" {
				sig := "state-mismatch/" + c16mismatchClass(ref, got) + "/" + c16seriesClass(ref, got, reusedName)
				if invalid {
					sig = "invalid-batch-changed-state/" + c16seriesClass(ref, got, reusedName)
				}
				res.Violate(sig, "after batch %d the gathered series differ from the reference: %s\ntrace:\n%s", b, diff, strings.Join(trace, "\n"))
				break
			}
			res.Count("series_compared", int64(len(ref)))
		}
		res.Key = fmt.Sprintf("b%d-%s-%d", nBatches, c16classes(classes), c.Index%8)
		if c.Index < 3 {
			res.Sample = map[string]any{"batches": trace}
		}
		res.Replay = map[string]any{"trace": trace}
		return res
	})
}

func c16classes(m map[string]bool) string {
	ks := vlib.SortedKeys(m)
	if len(ks) == 0 {
		return "plain"
	}
	return strings.Join(ks, "+")
}

func c16mismatchClass(ref, got map[string]c16series) string {
	for k := range got {
		if _, ok := ref[k]; !ok {
			return "stale-or-invented-series"
		}
	}
	for k := range ref {
		if _, ok := got[k]; !ok {
			return "missing-series"
		}
	}
	return "wrong-value"
}

func c16diff(ref, got map[string]c16series) string {
	var d []string
	for k, r := range ref {
		g, ok := got[k]
		if !ok {
			d = append(d, fmt.Sprintf("missing %s (want %s %v)", k, r.Kind, r.Value))
			continue
		}
		if g.Kind != r.Kind || math.Abs(g.Value-r.Value) > 1e-9 || (r.Kind == "histogram" && g.Count != r.Count) {
			d = append(d, fmt.Sprintf("%s: got %s %v, want %s %v", k, g.Kind, g.Value, r.Kind, r.Value))
		}
	}
	for k, g := range got {
		if _, ok := ref[k]; !ok {
			d = append(d, fmt.Sprintf("unexpected %s = %v", k, g.Value))
		}
	}
	sort.Strings(d)
	if len(d) > 6 {
		d = append(d[:6], fmt.Sprintf("... %d more", len(d)-6))
	}
	return strings.Join(d, "; ")
}

// c16seriesClass names the kind of series on which reference and registry
// disagree (first in sorted order), so that different defects get different
// signatures.
func c16seriesClass(ref, got map[string]c16series, reusedName string) string {
	var ks []string
	for k, r := range ref {
		g, ok := got[k]
		if !ok || g.Kind != r.Kind || math.Abs(g.Value-r.Value) > 1e-9 || g.Count != r.Count && r.Kind == "histogram" {
			ks = append(ks, k)
		}
	}
	for k := range got {
		if _, ok := ref[k]; !ok {
			ks = append(ks, k)
		}
	}
	sort.Strings(ks)
	if len(ks) == 0 {
		return "none"
	}
	k := ks[0]
	name := k[:strings.IndexByte(k, '{')]
	if reusedName != "" && name == reusedName {
		return "name-reused-grouped-and-ungrouped"
	}
	s, ok := ref[k]
	if !ok {
		s = got[k]
	}
	cls := s.Kind
	if strings.HasPrefix(name, "gm_") {
		cls = "grouped-" + cls
	} else {
		cls = "ungrouped-" + cls
	}
	if strings.Contains(k, ",b=") || strings.Contains(k, "{b=") {
		cls += "/widened-labels"
	}
	return cls
}

func c16gatherClass(classes map[string]bool, reusedName string) string {
	if reusedName != "" && classes["name-reused-grouped-and-ungrouped"] {
		return "name-reused-grouped-and-ungrouped"
	}
	if classes["varying-label-shape"] {
		return "varying-label-shape"
	}
	return "plain"
}
