package checks

// C15 (b) — conversion chains applied step by step, end to end.
//
// ConversionReview requests are posted (httptest) to the real router of the
// conversion webhook manager of a fully assembled operator; the hooks are vhook
// agents that convert the objects to the step's toVersion and append their name
// to the annotation verif/trail, or produce a scripted failure.

import (
	"bytes"
	"encoding/json"
	"fmt"
	"net/http/httptest"
	"strings"
	"testing"

	"verif/harness/vhk"
	"verif/harness/vlib"
)

var c15outcomes = []string{"ok", "exit1", "failed-message", "drop-object", "truncated", "empty", "failed-message-with-objects"}

func TestC15E2E(t *testing.T) {
	e := vlib.GetEnv()
	// all outcome vectors for chains of length 1..3 in which at most one step is not ok (+ all-ok), plus
	// for thorough every vector of length <= 3
	type vec []string
	var vecs []vec
	for L := 1; L <= 4; L++ {
		allok := make(vec, L)
		for i := range allok {
			allok[i] = "ok"
		}
		vecs = append(vecs, allok)
		for pos := 0; pos < L; pos++ {
			for _, oc := range c15outcomes[1:] {
				v := append(vec{}, allok...)
				v[pos] = oc
				vecs = append(vecs, v)
			}
		}
	}
	if e.Tier == "thorough" {
		for _, a := range c15outcomes {
			for _, b := range c15outcomes {
				vecs = append(vecs, vec{a, b})
				for _, cc := range c15outcomes {
					vecs = append(vecs, vec{a, b, cc})
				}
			}
		}
	}
	n := e.Pick(40, len(vecs))
	vlib.RunCases(t, "C15", "e2e", n, func(c *vlib.Case) vlib.Result {
		var res vlib.Result
		rng := c.Rng
		v := vecs[(c.Index*7+int(c.Seed))%len(vecs)]
		if e.Tier == "thorough" {
			v = vecs[c.Index%len(vecs)]
		}
		L := len(v)
		// versions v1..v(L+1) with random spellings in the rules
		crd := "crontabs.example.com"
		grp := []string{"", "", "stable.example.com/"}
		sp := func(i int) string { return grp[rng.IntN(len(grp))] + fmt.Sprintf("v%d", i) }
		// every fourth chain of two or more steps: an intermediate version carries the desired version's short
		// name under ANOTHER group (all versions spelled with their group, so nothing is ambiguous): the chain
		// must not stop there.
		crossGroup := L >= 2 && c.Index%4 == 1
		crossAt := 0
		if crossGroup {
			crossAt = 2 + rng.IntN(L-1) // one of the intermediate versions 2..L
			sp = func(i int) string {
				if i == crossAt {
					return fmt.Sprintf("other.example.com/v%d", L+1)
				}
				return fmt.Sprintf("stable.example.com/v%d", i)
			}
		}
		type rule struct{ From, To, Hook, Binding string }
		var rules []rule
		nHooks := 1 + rng.IntN(3)
		for i := 1; i <= L; i++ {
			h := fmt.Sprintf("conv%d", rng.IntN(nHooks))
			rules = append(rules, rule{From: sp(i), To: sp(i + 1), Hook: h, Binding: "b-" + h})
		}
		// a decoy rule that leads nowhere useful
		rules = append(rules, rule{From: "v90", To: "v91", Hook: "conv0", Binding: "b-conv0"})
		hs := vlib.NewHookSet(c.Dir, "hooks")
		byHook := map[string][]rule{}
		for _, r := range rules {
			byHook[r.Hook] = append(byHook[r.Hook], r)
		}
		for _, h := range vlib.SortedKeys(byHook) {
			rs := byHook[h]
			// a hook may declare its rules for one CRD in several bindings (e.g. "up" and "down" conversions):
			// half of the hooks with two or more rules spread them over two bindings
			nBind := 1
			if len(rs) >= 2 && rng.IntN(2) == 0 {
				nBind = 2
			}
			var bindings []any
			for bi := 0; bi < nBind; bi++ {
				var convs []any
				for ri, r := range rs {
					if ri%nBind == bi {
						convs = append(convs, m{"fromVersion": r.From, "toVersion": r.To})
					}
				}
				name := "b-" + h
				if nBind > 1 {
					name = fmt.Sprintf("b-%s-%d", h, bi)
				}
				bindings = append(bindings, m{"name": name, "crdName": crd, "conversions": convs})
			}
			hs.AddHook(h, 0o755, cfgJSON(m{"configVersion": "v1", "kubernetesCustomResourceConversion": bindings}))
		}
		// plan: the k-th execution of a hook is determined by the order of the chain steps
		execIdx := map[string]int{}
		for i := 0; i < L; i++ {
			h := rules[i].Hook
			d := vhk.Directive{}
			switch v[i] {
			case "ok":
				d.Conversion = "@convert"
			case "exit1":
				d.Exit, d.Conversion = 1, "@convert"
			case "failed-message":
				d.Conversion = fmt.Sprintf(`{"failedMessage":"step %d of %s says no"}`, i, h)
			case "failed-message-with-objects":
				d.Conversion = "@convert-and-failed-message"
			case "drop-object":
				d.Conversion = "@convert-drop-one"
			case "truncated":
				d.Conversion = `{"convertedObjects":[`
			case "empty":
			}
			hs.Plan(h, execIdx[h], d)
			execIdx[h]++
		}
		for h := range byHook {
			hs.Plan(h, -1, vhk.Directive{Conversion: "@convert"})
		}
		nObj := 1 + rng.IntN(3)
		fromSpelled := grp[rng.IntN(len(grp))] + "v1"
		desired := grp[rng.IntN(len(grp))] + fmt.Sprintf("v%d", L+1)
		if crossGroup {
			fromSpelled, desired = "stable.example.com/v1", fmt.Sprintf("stable.example.com/v%d", L+1)
		}
		var objs []any
		for i := 0; i < nObj; i++ {
			objs = append(objs, m{"apiVersion": fromSpelled, "kind": "CronTab", "metadata": m{"name": fmt.Sprintf("o%d", i), "namespace": "default"}, "spec": m{"n": float64(i)}})
		}
		uid := fmt.Sprintf("conv-%d", c.Index)
		var code int
		var body []byte
		inBubble(c, func(t *testing.T) {
			sys, err := vlib.NewSys(hs, nil)
			if err != nil {
				res.Inconclusive = "assemble: " + err.Error()
				sys.StopNow()
				return
			}
			defer sys.Stop()
			sys.Start()
			if !sys.Settle(100) {
				res.Inconclusive = "startup did not settle"
				return
			}
			if sys.Op.ConversionWebhookManager == nil || sys.Op.ConversionWebhookManager.Handler == nil {
				res.Inconclusive = "conversion handler not initialised"
				return
			}
			review := m{"apiVersion": "apiextensions.k8s.io/v1", "kind": "ConversionReview", "request": m{"uid": uid, "desiredAPIVersion": desired, "objects": objs}}
			b, _ := json.Marshal(review)
			rec := httptest.NewRecorder()
			hreq := httptest.NewRequest("POST", "/"+crd, bytes.NewReader(b))
			hreq.Header.Set("Content-Type", "application/json")
			sys.Op.ConversionWebhookManager.Handler.Router.ServeHTTP(rec, hreq)
			code, body = rec.Code, rec.Body.Bytes()
		})
		if res.Inconclusive != "" {
			return res
		}
		execs := hs.Executions()
		var ruleDesc, trace []string
		for i, r := range rules[:L] {
			ruleDesc = append(ruleDesc, fmt.Sprintf("%s->%s by %s (%s)", r.From, r.To, r.Hook, v[i]))
		}
		for _, ex := range execs {
			from, to := "", ""
			nIn := 0
			if len(ex.Contexts) > 0 {
				from, to = fmt.Sprint(ex.Contexts[0]["fromVersion"]), fmt.Sprint(ex.Contexts[0]["toVersion"])
				if rv, ok := ex.Contexts[0]["review"].(map[string]any); ok {
					if rq, ok := rv["request"].(map[string]any); ok {
						if os, ok := rq["objects"].([]any); ok {
							nIn = len(os)
						}
					}
				}
			}
			trace = append(trace, fmt.Sprintf("%s#%d %s->%s with %d objects", ex.Hook, ex.N, from, to, nIn))
		}
		desc := fmt.Sprintf("chain: %s; request %s -> %s with %d objects\ninvocations: %s\nanswer: HTTP %d %s", strings.Join(ruleDesc, " | "), fromSpelled, desired, nObj, strings.Join(trace, " | "), code, strings.TrimSpace(string(body)))
		var out struct {
			Response *struct {
				UID              string           `json:"uid"`
				ConvertedObjects []map[string]any `json:"convertedObjects"`
				Result           struct {
					Status  string `json:"status"`
					Message string `json:"message"`
				} `json:"result"`
			} `json:"response"`
		}
		if code != 200 || json.Unmarshal(body, &out) != nil || out.Response == nil {
			res.Violate("e2e/no-review-answer", "%s", desc)
			return res
		}
		r := out.Response
		firstBad := -1
		for i, oc := range v {
			if oc != "ok" {
				firstBad = i
				break
			}
		}
		cls := "all-ok"
		if firstBad >= 0 {
			cls = v[firstBad]
		}
		if r.UID != uid {
			res.Violate("e2e/uid-not-echoed/"+cls, "%s", desc)
		}
		// invocation order and hand-over
		expectInvocations := L
		if firstBad >= 0 && v[firstBad] != "drop-object" {
			expectInvocations = firstBad + 1
		}
		for i, ex := range execs {
			if i >= L {
				res.Violate("e2e/extra-invocation/"+cls, "more hook invocations than chain steps\n%s", desc)
				break
			}
			if ex.Hook != rules[i].Hook || len(ex.Contexts) != 1 || fmt.Sprint(ex.Contexts[0]["fromVersion"]) != rules[i].From || fmt.Sprint(ex.Contexts[0]["toVersion"]) != rules[i].To {
				res.Violate("e2e/wrong-step-order/"+cls, "invocation %d should be rule %s->%s by %s\n%s", i, rules[i].From, rules[i].To, rules[i].Hook, desc)
			}
		}
		if firstBad >= 0 && v[firstBad] != "drop-object" && len(execs) > expectInvocations {
			res.Violate("e2e/step-run-after-failure/"+cls, "step %d failed (%s) but %d hooks were invoked\n%s", firstBad, v[firstBad], len(execs), desc)
		}
		if firstBad < 0 && len(execs) != L {
			res.Violate("e2e/steps-missing", "%d invocations for a chain of %d steps\n%s", len(execs), L, desc)
		}
		// hand-over: step i+1 receives step i's output (trail of the previous steps)
		for i, ex := range execs {
			if i == 0 || i >= L || len(ex.Contexts) == 0 {
				continue
			}
			prevOK := true
			for _, oc := range v[:i] {
				if oc != "ok" {
					prevOK = false
				}
			}
			if !prevOK {
				continue
			}
			rv, _ := ex.Contexts[0]["review"].(map[string]any)
			rq, _ := rv["request"].(map[string]any)
			os, _ := rq["objects"].([]any)
			if len(os) != nObj {
				res.Violate("e2e/handover-object-count/"+cls, "step %d received %d objects, expected %d\n%s", i, len(os), nObj, desc)
				continue
			}
			for _, o := range os {
				trail := c15trail(o)
				if len(strings.Split(trail, ",")) != i || trail == "" {
					res.Violate("e2e/handover-not-previous-output/"+cls, "step %d received an object with trail %q, expected the output of the %d previous steps\n%s", i, trail, i, desc)
					break
				}
			}
		}
		// verdict
		success := r.Result.Status == "Success"
		if firstBad < 0 {
			if !success {
				res.Violate("e2e/failed-although-all-steps-ok", "%s", desc)
			} else {
				if len(r.ConvertedObjects) != nObj {
					res.Violate("e2e/object-count/all-ok", "Success with %d objects, %d requested\n%s", len(r.ConvertedObjects), nObj, desc)
				}
				for _, o := range r.ConvertedObjects {
					if fmt.Sprint(o["apiVersion"]) != desired {
						res.Violate("e2e/not-desired-version", "converted object has apiVersion %v, desired %s\n%s", o["apiVersion"], desired, desc)
					}
					if len(strings.Split(c15trail(o), ",")) != L {
						res.Violate("e2e/trail", "converted object trail %q, expected %d steps\n%s", c15trail(o), L, desc)
					}
				}
			}
		} else {
			if success {
				res.Violate("e2e/success-although-step-failed/"+cls, "answer is Success with %d objects (requested %d) although step %d was %q\n%s", len(r.ConvertedObjects), nObj, firstBad, v[firstBad], desc)
			} else if v[firstBad] == "failed-message-with-objects" {
				if want := "converted, but " + rules[firstBad].Hook + " says no"; !strings.Contains(r.Result.Message, want) {
					res.Violate("e2e/hook-message-lost", "the failing hook said %q, the answer's message is %q\n%s", want, r.Result.Message, desc)
				}
			} else if v[firstBad] == "failed-message" {
				want := fmt.Sprintf("step %d of %s says no", firstBad, rules[firstBad].Hook)
				if !strings.Contains(r.Result.Message, want) {
					res.Violate("e2e/hook-message-lost", "the failing hook said %q, the answer's message is %q\n%s", want, r.Result.Message, desc)
				}
			}
		}
		res.Count("chain_steps_invoked", int64(len(execs)))
		res.Key = fmt.Sprintf("L%d-%s-obj%d-x%v", L, strings.Join(v, ","), nObj, crossGroup)
		if c.Index < 3 {
			res.Sample = m{"case": desc}
		}
		res.Replay = m{"case": desc}
		return res
	})
}

func c15trail(o any) string {
	mm, _ := o.(map[string]any)
	md, _ := mm["metadata"].(map[string]any)
	an, _ := md["annotations"].(map[string]any)
	s, _ := an["verif/trail"].(string)
	return s
}
