package checks

// C09 — binding context JSON follows the documented contract, incl. filterResult.
//
// Every binding context file read by a hook process in the shared kubernetes
// workload (C01/C02 cases) plus schedule / onStartup / admission / conversion
// executions is validated byte-for-byte against a validator written from
// docs/src/HOOKS.md, BINDING_VALIDATING.md and BINDING_CONVERSION.md; the
// filterResult of every Event / objects item is compared with an independent jq
// evaluation on the very object state (identified by its generation id).

import (
	"fmt"
	"strings"
	"testing"

	"verif/harness/vlib"
)

func TestC09(t *testing.T) {
	e := vlib.GetEnv()
	n := e.Pick(48, 10000)
	vlib.RunCases(t, "C09", "contexts", n, func(c *vlib.Case) vlib.Result {
		var res vlib.Result
		kc := genKCase(c.Rng, map[string]bool{"watch-faults": c.Index%5 == 4, "group-with-include": true})
		rec := runKCase(c, kc, false, nil)
		if rec.Inconclusive != "" {
			res.Inconclusive = rec.Inconclusive
			return res
		}
		c09validate(&res, rec)
		shapes := map[string]bool{}
		for _, ex := range rec.Execs {
			for _, cx := range ex.Contexts {
				shapes[fmt.Sprint(cx["type"])] = true
			}
		}
		jqs := map[string]bool{}
		for _, kh := range kc.Hooks {
			for _, b := range kh.Binds {
				jqs[fmt.Sprintf("%s/%v/%v", b.Jq, b.KeepFull, b.Group != "")] = true
				if b.Group != "" && len(b.Include) > 0 {
					res.Count("grouped_bindings_with_includeSnapshotsFrom", 1)
				}
			}
		}
		if len(rec.Execs) > 0 {
			res.Key = strings.Join(vlib.SortedKeys(shapes), "+") + "|" + strings.Join(vlib.SortedKeys(jqs), ";")
		}
		if c.Index < 2 {
			res.Sample = m{"case": rec.describe()}
		}
		res.Replay = m{"case": rec.describe()}
		return res
	})
}

func c09validate(res *vlib.Result, rec *krecord) {
	vc := rec.VC
	for _, ex := range rec.Execs {
		where := fmt.Sprintf("execution #%d of %s", ex.Idx, ex.Hook)
		if ex.CtxErr != nil {
			res.Violate("not-a-json-array", "%s: %v\n%s", where, ex.CtxErr, string(ex.CtxRaw))
			continue
		}
		for ci, cx := range ex.Contexts {
			res.Count("contexts_validated", 1)
			bname, isStr := cx["binding"].(string)
			if !isStr {
				res.Violate("binding-missing", "%s context %d: %v", where, ci, cx)
				continue
			}
			typ, _ := cx["type"].(string)
			fail := func(sig, f string, a ...any) {
				res.Violate(sig, "%s context %d (%s/%s): %s\ncontext: %s\n%s", where, ci, bname, typ, fmt.Sprintf(f, a...), vlib.JSON(cx), rec.describe())
			}
			allowed := func(keys ...string) {
				ok := map[string]bool{"binding": true}
				for _, k := range keys {
					ok[k] = true
				}
				for k := range cx {
					if !ok[k] {
						fail("unexpected-field/"+typ+"/"+k, "field %q is not documented for this context type", k)
					}
				}
			}
			if bname == "snap" {
				if typ != "Schedule" {
					fail("schedule-type", "schedule context has type %q", typ)
				}
				allowed("type", "snapshots")
				c09snapshots(res, rec, ex, cx, nil, fail)
				continue
			}
			b := rec.KC.bind(ex.Hook, bname)
			if b == nil {
				fail("unknown-binding", "binding %q is not declared by the hook", bname)
				continue
			}
			wantSnaps := len(b.Include) > 0 || b.Group != ""
			_, hasSnaps := cx["snapshots"]
			if hasSnaps != wantSnaps {
				fail("snapshots-presence/"+typ, "snapshots present=%v, but the binding's effective includeSnapshotsFrom is non-empty=%v", hasSnaps, wantSnaps)
			}
			if hasSnaps {
				c09snapshots(res, rec, ex, cx, b, fail)
			}
			if b.Group != "" {
				if typ != "Group" {
					fail("group-type", "grouped binding rendered as type %q", typ)
				}
				if fmt.Sprint(cx["groupName"]) != b.Group {
					fail("group-name", "groupName %v, expected %q", cx["groupName"], b.Group)
				}
				allowed("type", "groupName", "snapshots")
				continue
			}
			switch typ {
			case "Synchronization":
				allowed("type", "objects", "snapshots")
				objs, isArr := cx["objects"].([]any)
				if !isArr {
					fail("objects-not-array", "objects is %T", cx["objects"])
					continue
				}
				for _, o := range objs {
					c09item(res, vc, b, o, fail)
				}
			case "Event":
				we, _ := cx["watchEvent"].(string)
				if we != "Added" && we != "Modified" && we != "Deleted" {
					fail("watch-event", "watchEvent %v", cx["watchEvent"])
				}
				keys := []string{"type", "watchEvent", "snapshots"}
				if b.KeepFull {
					keys = append(keys, "object")
				}
				if b.Jq != "" {
					keys = append(keys, "filterResult")
				}
				allowed(keys...)
				c09item(res, vc, b, map[string]any(cx), fail)
			default:
				fail("unknown-type", "type %q for a kubernetes binding", typ)
			}
		}
	}
}

// c09item validates an {object?, filterResult?} pair (Event context or objects/snapshots item).
func c09item(res *vlib.Result, vc *vlib.VCluster, b *kbind, item any, fail func(sig, f string, a ...any)) {
	mm, ok := item.(map[string]any)
	if !ok {
		fail("item-not-object", "item is %T", item)
		return
	}
	obj, hasObj := mm["object"]
	fr, hasFR := mm["filterResult"]
	if b.KeepFull && (!hasObj || obj == nil) {
		fail("object-missing", "keepFullObjectsInMemory is true but the object is missing")
		return
	}
	if !b.KeepFull && hasObj {
		fail("object-present-although-not-kept", "keepFullObjectsInMemory is false but an object is present")
	}
	if (b.Jq != "") != hasFR {
		fail("filterresult-presence/jq="+jqKind(b.Jq), "filterResult present=%v, jqFilter set=%v", hasFR, b.Jq != "")
		return
	}
	if b.Jq == "" {
		return
	}
	// identify the state
	var key string
	var gen string
	if hasObj && obj != nil {
		om := obj.(map[string]any)
		md, _ := om["metadata"].(map[string]any)
		key = fmt.Sprintf("%v/%v", md["namespace"], md["name"])
		gen, _, _ = unstructuredNestedString(om, "data", "gen")
	} else {
		gen = genFromFilterResult(fr)
	}
	if gen == "" || gen == "?" {
		// not identifiable: the filter does not carry the generation; then at least it must not be null when the object has the field
		if fr == nil && b.Jq == ".metadata.labels" {
			return
		}
		if fr == nil {
			fail("filterresult-null/jq="+jqKind(b.Jq), "filterResult is null for jqFilter %q", b.Jq)
		}
		return
	}
	var g int
	fmt.Sscanf(gen, "%d", &g)
	var st vlib.ObjState
	found := false
	if key != "" {
		st, _, found = vc.StateByGen(key, g)
	} else {
		for k := range vc.History {
			if s, _, ok := vc.StateByGen(k, g); ok {
				st, key, found = s, k, true
			}
		}
	}
	if !found || st.Deleted {
		fail("state-never-existed", "object %s with generation %s is not a state the cluster ever had", key, gen)
		return
	}
	parts := strings.SplitN(key, "/", 2)
	want, err := jqRef(b.Jq, vlib.BuildCM(parts[0], parts[1], st).Object)
	if err != nil {
		return
	}
	res.Count("filter_results_compared", 1)
	if vlib.JSON(fr) != vlib.JSON(want) {
		fail("filterresult-wrong/jq="+jqKind(b.Jq), "filterResult %s, the jq result for that very object state (%s gen %s) is %s", vlib.JSON(fr), key, gen, vlib.JSON(want))
	}
}

func jqKind(expr string) string {
	switch expr {
	case "":
		return "none"
	case ".data", "{g: .data.gen}", ".metadata.labels":
		return "object"
	case ".data.gen":
		return "scalar"
	}
	return "array"
}

func c09snapshots(res *vlib.Result, rec *krecord, ex *kexec, cx map[string]any, b *kbind, fail func(sig, f string, a ...any)) {
	snaps, ok := cx["snapshots"].(map[string]any)
	if !ok {
		if _, has := cx["snapshots"]; has {
			fail("snapshots-not-object", "snapshots is %T", cx["snapshots"])
		}
		return
	}
	// the keys are the binding's own list: includeSnapshotsFrom, or the kubernetes bindings of its group
	// (b == nil: the harness's "snap" schedule binding, which includes every kubernetes binding of the hook)
	if b != nil {
		want := map[string]bool{}
		for _, i := range b.Include {
			want[i] = true
		}
		if b.Group != "" {
			for _, kh := range rec.KC.Hooks {
				if kh.Rel == ex.Hook {
					for _, kb := range kh.Binds {
						if kb.Group == b.Group {
							want[kb.Name] = true
						}
					}
				}
			}
		}
		if strings.Join(vlib.SortedKeys(snaps), ",") != strings.Join(vlib.SortedKeys(want), ",") {
			fail("snapshots-keys", "snapshots has the keys %v, the binding includes %v", vlib.SortedKeys(snaps), vlib.SortedKeys(want))
		}
	}
	for name, list := range snaps {
		sb := rec.KC.bind(ex.Hook, name)
		if sb == nil {
			fail("snapshot-of-unknown-binding", "snapshots has key %q", name)
			continue
		}
		items, isArr := list.([]any)
		if !isArr {
			fail("snapshot-not-array", "snapshots[%s] is %T", name, list)
			continue
		}
		for _, it := range items {
			c09item(res, rec.VC, sb, it, fail)
		}
	}
}
