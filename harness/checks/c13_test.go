package checks

// C13 — patch file: validated as a whole, applied in order, JSON and YAML agree.
//
// Oracle: a reference executor over a map of objects implementing the
// documented effect of the nine operations; the real ParseOperations +
// ExecuteOperations run against the kube-client fake cluster; compared: parse
// error vs. expectation, API action log (verbs in document order), final
// cluster state, and agreement between the JSON rendering and two YAML
// renderings of the same documents.

import (
	"context"
	"encoding/json"
	"fmt"
	"sort"
	"strings"
	"testing"

	"github.com/deckhouse/deckhouse/pkg/log"
	jsonpatch "github.com/evanphx/json-patch"
	"github.com/itchyny/gojq"
	metav1 "k8s.io/apimachinery/pkg/apis/meta/v1"
	"k8s.io/apimachinery/pkg/apis/meta/v1/unstructured"
	"k8s.io/apimachinery/pkg/runtime/schema"
	dynfake "k8s.io/client-go/dynamic/fake"
	sigyaml "sigs.k8s.io/yaml"

	"github.com/flant/kube-client/fake"
	objectpatch "github.com/flant/shell-operator/pkg/kube/object_patch"

	"verif/harness/vlib"
)

var c13gvr = schema.GroupVersionResource{Version: "v1", Resource: "configmaps"}

type c13doc map[string]any

func c13obj(ns, name string, rev int, rng interface{ IntN(int) int }) map[string]any {
	o := map[string]any{
		"apiVersion": "v1", "kind": "ConfigMap",
		"metadata": map[string]any{"name": name, "namespace": ns, "labels": map[string]any{"rev": fmt.Sprint(rev)}},
		"data":     map[string]any{"k": fmt.Sprintf("v%d", rev), "fixed": "x"},
	}
	switch rng.IntN(3) {
	case 0:
		o["spec"] = map[string]any{"replicas": float64(rev), "ratio": 0.5 + float64(rev), "items": []any{"a", float64(rev)}}
	case 1:
		o["spec"] = map[string]any{"nested": map[string]any{"deep": map[string]any{"n": float64(rev * 10)}}}
	}
	return o
}

func c13key(o map[string]any) string {
	md, _ := o["metadata"].(map[string]any)
	return fmt.Sprintf("%v/%v", md["namespace"], md["name"])
}

func c13norm(v any) any {
	b, _ := json.Marshal(v)
	var out any
	_ = json.Unmarshal(b, &out)
	return out
}

// c13apply is the reference executor: it applies one VALID document to state and
// reports whether the operation itself fails (e.g. Create of an existing object).
func c13apply(state map[string]map[string]any, d c13doc) (failed bool, verbs []string) {
	op, _ := d["operation"].(string)
	key := fmt.Sprintf("%v/%v", d["namespace"], d["name"])
	switch op {
	case "Create", "CreateIfNotExists", "CreateOrUpdate":
		var obj map[string]any
		switch o := d["object"].(type) {
		case map[string]any:
			obj = c13norm(o).(map[string]any)
		case string:
			_ = sigyaml.Unmarshal([]byte(o), &obj)
		}
		k := c13key(obj)
		_, exists := state[k]
		verbs = append(verbs, "create")
		switch {
		case !exists:
			state[k] = obj
		case op == "Create":
			return true, verbs
		case op == "CreateOrUpdate":
			verbs = append(verbs, "get", "update")
			state[k] = obj
		}
	case "Delete", "DeleteInBackground", "DeleteNonCascading":
		verbs = append(verbs, "delete")
		if _, exists := state[key]; exists && op == "Delete" {
			// foreground deletion waits until a Get answers NotFound
			verbs = append(verbs, "get")
		}
		delete(state, key)
	case "MergePatch", "JSONPatch":
		verbs = append(verbs, "patch"+c13sub(d))
		cur, exists := state[key]
		if !exists {
			return d["ignoreMissingObject"] != true, verbs
		}
		curB, _ := json.Marshal(cur)
		var patchB []byte
		field := "mergePatch"
		if op == "JSONPatch" {
			field = "jsonPatch"
		}
		switch p := d[field].(type) {
		case string:
			var tmp any
			_ = sigyaml.Unmarshal([]byte(p), &tmp)
			patchB, _ = json.Marshal(tmp)
		default:
			patchB, _ = json.Marshal(p)
		}
		var out []byte
		var err error
		if op == "MergePatch" {
			out, err = jsonpatch.MergePatch(curB, patchB)
		} else {
			var jp jsonpatch.Patch
			jp, err = jsonpatch.DecodePatch(patchB)
			if err == nil {
				out, err = jp.Apply(curB)
			}
		}
		if err != nil {
			return true, verbs
		}
		var nobj map[string]any
		_ = json.Unmarshal(out, &nobj)
		state[key] = nobj
	case "JQPatch":
		verbs = append(verbs, "get")
		cur, exists := state[key]
		if !exists {
			return d["ignoreMissingObject"] != true, verbs
		}
		q, err := gojq.Parse(d["jqFilter"].(string))
		if err != nil {
			return true, verbs
		}
		it := q.Run(c13norm(cur))
		v, ok := it.Next()
		if !ok {
			return true, verbs
		}
		if _, isErr := v.(error); isErr {
			return true, verbs
		}
		nobj, isObj := v.(map[string]any)
		if !isObj {
			return true, verbs
		}
		nobj = c13norm(nobj).(map[string]any)
		if vlib.JSON(nobj) != vlib.JSON(c13norm(cur)) {
			verbs = append(verbs, "update"+c13sub(d))
			state[key] = nobj
		} else {
			// an Update with identical content is harmless and not forbidden by the statement
			verbs = append(verbs, "update"+c13sub(d)+"?")
		}
	}
	return false, verbs
}

// c13sub: a patch operation with `subresource` writes to that subresource of the object (the write action carries
// it; on the fake cluster the stored object looks the same either way, so the action log is where it shows).
func c13sub(d c13doc) string {
	if s, _ := d["subresource"].(string); s != "" {
		return ":" + s
	}
	return ""
}

func c13render(docs []c13doc, mode string) string {
	var sb strings.Builder
	for i, d := range docs {
		dd := c13doc{}
		for k, v := range d {
			dd[k] = v
		}
		if mode == "yaml-string-objects" && d["__invalid"] == nil {
			for _, f := range []string{"object", "mergePatch", "jsonPatch"} {
				if v, ok := dd[f]; ok {
					if _, isStr := v.(string); !isStr {
						b, _ := sigyaml.Marshal(v)
						dd[f] = string(b)
					}
				}
			}
		}
		delete(dd, "__invalid")
		switch mode {
		case "json":
			b, _ := json.Marshal(dd)
			sb.Write(b)
			sb.WriteString("\n")
		case "yaml-flow-documents":
			// a YAML stream whose documents are written in flow style (what `jq -c` prints), separated by
			// "---" and without a leading one: its first document is a complete JSON value
			if i > 0 {
				sb.WriteString("---\n")
			}
			b, _ := json.Marshal(dd)
			sb.Write(b)
			sb.WriteString("\n")
		default:
			if i > 0 {
				sb.WriteString("---\n")
			}
			b, _ := sigyaml.Marshal(map[string]any(dd))
			sb.Write(b)
		}
	}
	return sb.String()
}

type c13run struct {
	ParseErr error
	ExecErr  error
	Verbs    []string
	Mutating int
	State    map[string]map[string]any
	Panic    any
}

func c13execute(initial map[string]map[string]any, stream string) (r c13run) {
	cluster := fake.NewFakeCluster(fake.ClusterVersionV127)
	dyn := cluster.Client.Dynamic()
	for _, k := range vlib.SortedKeys(initial) {
		o := initial[k]
		u := &unstructured.Unstructured{Object: c13norm(o).(map[string]any)}
		_, err := dyn.Resource(c13gvr).Namespace(u.GetNamespace()).Create(context.TODO(), u, metav1.CreateOptions{})
		if err != nil {
			panic(err)
		}
	}
	fdc := dyn.(*dynfake.FakeDynamicClient)
	fdc.ClearActions()
	defer func() {
		if p := recover(); p != nil {
			r.Panic = p
		}
		for _, a := range fdc.Actions() {
			verb := a.GetVerb()
			if sr := a.GetSubresource(); sr != "" && verb != "get" {
				verb += ":" + sr
			}
			r.Verbs = append(r.Verbs, verb)
			switch a.GetVerb() {
			case "create", "update", "patch", "delete":
				r.Mutating++
			}
		}
		fdc.ClearActions()
		lst, err := dyn.Resource(c13gvr).Namespace("").List(context.TODO(), metav1.ListOptions{})
		r.State = map[string]map[string]any{}
		if err == nil {
			for _, it := range lst.Items {
				o := c13norm(it.Object).(map[string]any)
				r.State[c13key(o)] = o
			}
		}
	}()
	ops, err := objectpatch.ParseOperations([]byte(stream))
	if err != nil {
		r.ParseErr = err
		return r
	}
	patcher := objectpatch.NewObjectPatcher(cluster.Client, log.NewNop())
	r.ExecErr = patcher.ExecuteOperations(ops)
	return r
}

func TestC13(t *testing.T) {
	e := vlib.GetEnv()
	n := e.Pick(600, 300000)
	vlib.RunCases(t, "C13", "streams", n, func(c *vlib.Case) vlib.Result {
		var res vlib.Result
		rng := c.Rng
		nss := []string{"ns1", "ns2"}
		names := []string{"a", "b", "c"}
		initial := map[string]map[string]any{}
		for i := rng.IntN(6); i > 0; i-- {
			o := c13obj(nss[rng.IntN(2)], names[rng.IntN(3)], rng.IntN(4), rng)
			initial[c13key(o)] = o
		}
		nDocs := 1 + rng.IntN(6)
		var docs []c13doc
		kinds := map[string]bool{}
		for i := 0; i < nDocs; i++ {
			ns, name := nss[rng.IntN(2)], names[rng.IntN(3)]
			var d c13doc
			switch rng.IntN(9) {
			case 0:
				d = c13doc{"operation": "Create", "object": c13obj(ns, name, 10+i, rng)}
			case 1:
				d = c13doc{"operation": "CreateIfNotExists", "object": c13obj(ns, name, 10+i, rng)}
			case 2:
				d = c13doc{"operation": "CreateOrUpdate", "object": c13obj(ns, name, 10+i, rng)}
			case 3, 4:
				d = c13doc{"operation": []string{"Delete", "DeleteInBackground", "DeleteNonCascading"}[rng.IntN(3)], "kind": "ConfigMap", "namespace": ns, "name": name}
				if rng.IntN(2) == 0 {
					d["apiVersion"] = "v1"
				}
			case 5, 6:
				d = c13doc{"operation": "MergePatch", "kind": "ConfigMap", "namespace": ns, "name": name,
					"mergePatch": map[string]any{"data": map[string]any{"k": fmt.Sprintf("merged%d", i), "fixed": nil}, "spec": map[string]any{"replicas": float64(100 + i)}}}
			case 7:
				d = c13doc{"operation": "JSONPatch", "kind": "ConfigMap", "namespace": ns, "name": name,
					"jsonPatch": []any{map[string]any{"op": "add", "path": "/data/j" + fmt.Sprint(i), "value": "jp"}, map[string]any{"op": "replace", "path": "/metadata/labels/rev", "value": "patched"}}}
			case 8:
				d = c13doc{"operation": "JQPatch", "kind": "ConfigMap", "namespace": ns, "name": name,
					"jqFilter": []string{`.data.jq = "v` + fmt.Sprint(i) + `"`, `.metadata.labels.rev = "jq"`, `del(.data.fixed)`, `.`}[rng.IntN(4)]}
			}
			if op := d["operation"].(string); strings.HasSuffix(op, "Patch") {
				if rng.IntN(2) == 0 {
					d["ignoreMissingObject"] = true
				}
				if rng.IntN(5) == 0 {
					d["ignoreHookError"] = true
				}
				if rng.IntN(3) == 0 {
					d["apiVersion"] = "v1"
				}
				if (c.Index+i)%3 == 0 {
					// (no draw from rng: the streams of the earlier cases stay what they were)
					d["subresource"] = "status"
					res.Count("patch_operations_with_subresource", 1)
				}
			}
			kinds[d["operation"].(string)] = true
			docs = append(docs, d)
		}
		// single-fault invalid document at a random position
		invalidKind := ""
		if rng.IntN(4) == 0 {
			pos := rng.IntN(len(docs) + 1)
			var bad c13doc
			switch rng.IntN(9) {
			case 7:
				bad, invalidKind = c13doc{"kind": "ConfigMap", "namespace": "ns1", "name": "a"}, "no-operation"
			case 8:
				bad, invalidKind = c13doc{"operation": "", "kind": "ConfigMap", "namespace": "ns1", "name": "a"}, "empty-operation"
			case 0:
				bad, invalidKind = c13doc{"operation": "Create"}, "create-without-object"
			case 1:
				bad, invalidKind = c13doc{"operation": "Delete", "name": "a"}, "delete-without-kind"
			case 2:
				bad, invalidKind = c13doc{"operation": "MergePatch", "kind": "ConfigMap", "name": "a", "namespace": "ns1"}, "patch-without-patch"
			case 3:
				bad, invalidKind = c13doc{"operation": "Create", "object": c13obj("ns1", "zz", 1, rng), "unknownKey": true}, "unknown-key"
			case 4:
				bad, invalidKind = c13doc{"operation": "Annihilate", "kind": "ConfigMap", "name": "a"}, "unknown-operation"
			case 5:
				bad, invalidKind = c13doc{"operation": "Create", "object": float64(5)}, "object-wrong-type"
			case 6:
				bad, invalidKind = c13doc{"operation": "CreateOrUpdate", "object": map[string]any{}}, "object-empty"
			}
			bad["__invalid"] = true
			docs = append(docs[:pos], append([]c13doc{bad}, docs[pos:]...)...)
		}

		// reference
		ref := map[string]map[string]any{}
		for k, v := range initial {
			ref[k] = c13norm(v).(map[string]any)
		}
		expectExecErr := false
		var refVerbs []string
		if invalidKind == "" {
			for _, d := range docs {
				failed, verbs := c13apply(ref, d)
				if failed {
					expectExecErr = true
				}
				refVerbs = append(refVerbs, verbs...)
			}
		}
		modes := []string{"json", "yaml", "yaml-string-objects", "yaml-flow-documents"}
		runs := map[string]c13run{}
		inBubble(c, func(t *testing.T) {
			for _, m := range modes {
				runs[m] = c13execute(initial, c13render(docs, m))
			}
		})
		desc := func(m string) string {
			return fmt.Sprintf("initial=%v stream(%s)=\n%s", vlib.SortedKeys(initial), m, c13render(docs, m))
		}
		for _, m := range modes {
			r := runs[m]
			res.Count("streams_executed", 1)
			if r.Panic != nil {
				res.Violate("panic/"+m, "%s\npanic: %v", desc(m), r.Panic)
				continue
			}
			if invalidKind != "" {
				if r.ParseErr == nil {
					res.Violate("invalid-document-accepted/"+invalidKind+"/"+m, "%s\nParseOperations returned no error", desc(m))
				}
				if r.Mutating != 0 {
					res.Violate("invalid-stream-applied/"+m, "%s\n%d mutating API actions: %v", desc(m), r.Mutating, r.Verbs)
				}
				if vlib.JSON(r.State) != vlib.JSON(c13normState(initial)) {
					res.Violate("invalid-stream-changed-state/"+m, "%s", desc(m))
				}
				continue
			}
			if r.ParseErr != nil {
				res.Violate("valid-stream-rejected/"+m, "%s\nerror: %v", desc(m), r.ParseErr)
				continue
			}
			if (r.ExecErr != nil) != expectExecErr {
				res.Violate("exec-error-mismatch/"+m, "%s\nexecution error: %v, reference expects failure=%v", desc(m), r.ExecErr, expectExecErr)
			}
			if vlib.JSON(r.State) != vlib.JSON(ref) {
				res.Violate("final-state/"+m+"/"+c13stateDiffClass(r.State, ref, docs), "%s\nfinal state differs from the reference:\n got  %s\n want %s", desc(m), vlib.JSON(r.State), vlib.JSON(ref))
			}
			if !c13verbsMatch(r.Verbs, refVerbs) {
				res.Violate("action-log/"+m, "%s\nAPI actions %v, reference (document order, once each) %v", desc(m), r.Verbs, refVerbs)
			}
		}
		if invalidKind == "" {
			j := runs["json"]
			for _, m := range modes[1:] {
				r := runs[m]
				// API actions are compared with the reference above (an Update with identical
				// content after a JQPatch is optional); between renderings only the final state must agree.
				if j.Panic == nil && r.Panic == nil && vlib.JSON(j.State) != vlib.JSON(r.State) {
					res.Violate("json-yaml-disagree/"+m, "%s\njson: verbs %v state %s\n%s: verbs %v state %s", desc("json"), j.Verbs, vlib.JSON(j.State), m, r.Verbs, vlib.JSON(r.State))
				}
			}
		}
		ks := vlib.SortedKeys(kinds)
		res.Key = fmt.Sprintf("docs%d-init%d-inv:%s-%s", len(docs), len(initial), invalidKind, strings.Join(ks, "+"))
		if c.Index < 3 {
			res.Sample = map[string]any{"initial_objects": vlib.SortedKeys(initial), "json_stream": c13render(docs, "json"), "yaml_stream": c13render(docs, "yaml"), "invalid_document": invalidKind, "reference_verbs": refVerbs}
		}
		res.Replay = map[string]any{"initial": initial, "docs": docs}
		return res
	})
}

func c13normState(s map[string]map[string]any) map[string]map[string]any {
	out := map[string]map[string]any{}
	for k, v := range s {
		out[k] = c13norm(v).(map[string]any)
	}
	return out
}

func c13stateDiffClass(got, want map[string]map[string]any, docs []c13doc) string {
	var ks []string
	for k := range want {
		if vlib.JSON(got[k]) != vlib.JSON(want[k]) {
			ks = append(ks, k)
		}
	}
	for k := range got {
		if _, ok := want[k]; !ok {
			ks = append(ks, k)
		}
	}
	sort.Strings(ks)
	if len(ks) == 0 {
		return "none"
	}
	// last operation that targeted the first differing object
	last := "untouched"
	for _, d := range docs {
		k := fmt.Sprintf("%v/%v", d["namespace"], d["name"])
		if o, ok := d["object"].(map[string]any); ok {
			k = c13key(o)
		}
		if k == ks[0] {
			last = fmt.Sprint(d["operation"])
		}
	}
	return "after-" + last
}

// c13verbsMatch compares the API action log with the reference; a reference
// verb ending in "?" is optional.
func c13verbsMatch(got, want []string) bool {
	i := 0
	for _, w := range want {
		if strings.HasSuffix(w, "?") {
			if i < len(got) && got[i] == strings.TrimSuffix(w, "?") {
				i++
			}
			continue
		}
		if i >= len(got) || got[i] != w {
			return false
		}
		i++
	}
	return i == len(got)
}
