package checks

// C09, conversion and admission contexts at the process boundary — a hook with one
// conversion binding declaring several rules (and one validating + one mutating
// binding) is asked, over the real webhook routers, to serve each rule / path in
// turn; the context file the hook receives must carry the documented fields of
// exactly that rule / binding: type, binding, fromVersion and toVersion as
// declared in the rule, review.request with the request's uid.

import (
	"bytes"
	"encoding/json"
	"fmt"
	"net/http/httptest"
	"strings"
	"testing"

	"verif/harness/vhk"
	"verif/harness/vlib"
)

func TestC09Conversion(t *testing.T) {
	e := vlib.GetEnv()
	n := e.Pick(12, 600)
	vlib.RunCases(t, "C09", "conversion-contexts", n, func(c *vlib.Case) vlib.Result {
		var res vlib.Result
		rng := c.Rng
		crd := "crontabs.example.com"
		nRules := 2 + rng.IntN(3)
		type rule struct{ From, To string }
		var rules []rule
		var convs []any
		grp := []string{"", "stable.example.com/"}
		for i := 1; i <= nRules; i++ {
			r := rule{grp[rng.IntN(2)] + fmt.Sprintf("v%d", i), grp[rng.IntN(2)] + fmt.Sprintf("v%d", i+1)}
			rules = append(rules, r)
			convs = append(convs, m{"fromVersion": r.From, "toVersion": r.To})
		}
		hs := vlib.NewHookSet(c.Dir, "hooks")
		binding := "conv-binding"
		cfg := m{"configVersion": "v1", "kubernetesCustomResourceConversion": []any{m{"name": binding, "crdName": crd, "conversions": convs}}}
		convIncl := rng.IntN(2) == 0
		if convIncl {
			cfg["kubernetes"] = []any{m{"name": "k", "apiVersion": "v1", "kind": "ConfigMap", "executeHookOnSynchronization": false}}
			cfg["kubernetesCustomResourceConversion"].([]any)[0].(m)["includeSnapshotsFrom"] = []any{"k"}
		}
		// the same hook also has a validating and a mutating binding with different snapshot lists
		inclV, inclM := rng.IntN(2) == 0, rng.IntN(2) == 0
		if _, hasK := cfg["kubernetes"]; !hasK {
			cfg["kubernetes"] = []any{m{"name": "k", "apiVersion": "v1", "kind": "ConfigMap", "executeHookOnSynchronization": false}}
		}
		cfg["kubernetes"] = append(cfg["kubernetes"].([]any), m{"name": "k2", "apiVersion": "v1", "kind": "ConfigMap", "executeHookOnSynchronization": false, "nameSelector": m{"matchNames": []any{"zz"}}})
		admRules := []any{m{"apiGroups": []any{""}, "apiVersions": []any{"v1"}, "operations": []any{"CREATE"}, "resources": []any{"pods"}, "scope": "Namespaced"}}
		vb := m{"name": "val.example.com", "rules": admRules}
		mb := m{"name": "mut.example.com", "rules": admRules}
		if inclV {
			vb["includeSnapshotsFrom"] = []any{"k"}
		}
		if inclM {
			mb["includeSnapshotsFrom"] = []any{"k2"}
		}
		cfg["kubernetesValidating"] = []any{vb}
		cfg["kubernetesMutating"] = []any{mb}
		hs.AddHook("conv", 0o755, cfgJSON(cfg))
		hs.Plan("conv", -1, vhk.Directive{Conversion: "@convert", Admission: `{"allowed":true}`})
		order := rng.Perm(nRules)
		var uids []string
		inBubble(c, func(t *testing.T) {
			sys, err := vlib.NewSys(hs, nil)
			if err != nil {
				res.Inconclusive = "assemble: " + err.Error()
				sys.StopNow()
				return
			}
			defer sys.Stop()
			sys.Start()
			if !sys.Settle(100) {
				res.Inconclusive = "startup did not settle"
				return
			}
			if sys.Op.ConversionWebhookManager == nil || sys.Op.ConversionWebhookManager.Handler == nil {
				res.Inconclusive = "conversion handler not initialised"
				return
			}
			if sys.Op.AdmissionWebhookManager == nil || sys.Op.AdmissionWebhookManager.Handler == nil {
				res.Inconclusive = "admission handler not initialised"
				return
			}
			for _, path := range []string{"/hooks/val-example-com", "/hooks/mut-example-com"} {
				review := m{"apiVersion": "admission.k8s.io/v1", "kind": "AdmissionReview", "request": m{
					"uid": "c09-adm" + path, "kind": m{"group": "", "version": "v1", "kind": "Pod"}, "resource": m{"group": "", "version": "v1", "resource": "pods"},
					"name": "p", "namespace": "default", "operation": "CREATE", "object": m{"apiVersion": "v1", "kind": "Pod", "metadata": m{"name": "p", "namespace": "default"}},
				}}
				b, _ := json.Marshal(review)
				rec := httptest.NewRecorder()
				hreq := httptest.NewRequest("POST", path, bytes.NewReader(b))
				hreq.Header.Set("Content-Type", "application/json")
				sys.Op.AdmissionWebhookManager.Handler.Router.ServeHTTP(rec, hreq)
			}
			for k, ri := range order {
				r := rules[ri]
				uid := fmt.Sprintf("c09-%d-%d", c.Index, k)
				uids = append(uids, uid)
				obj := m{"apiVersion": r.From, "kind": "CronTab", "metadata": m{"name": "o", "namespace": "default"}}
				review := m{"apiVersion": "apiextensions.k8s.io/v1", "kind": "ConversionReview", "request": m{"uid": uid, "desiredAPIVersion": r.To, "objects": []any{obj}}}
				b, _ := json.Marshal(review)
				rec := httptest.NewRecorder()
				hreq := httptest.NewRequest("POST", "/"+crd, bytes.NewReader(b))
				hreq.Header.Set("Content-Type", "application/json")
				sys.Op.ConversionWebhookManager.Handler.Router.ServeHTTP(rec, hreq)
			}
		})
		if res.Inconclusive != "" {
			return res
		}
		execs := hs.Executions()
		desc := fmt.Sprintf("binding %s with rules %v, requests served in the order %v; validating binding includes k: %v, mutating binding includes k2: %v", binding, rules, order, inclV, inclM)
		// the two admission runs come first
		if len(execs) >= 2 {
			for i, want := range []struct {
				Typ, Binding string
				Keys         []string
			}{{"Validating", "val.example.com", map[bool][]string{true: {"k"}, false: nil}[inclV]}, {"Mutating", "mut.example.com", map[bool][]string{true: {"k2"}, false: nil}[inclM]}} {
				ex := execs[i]
				if len(ex.Contexts) != 1 {
					res.Violate("admission/context-count", "admission run %d received %d contexts\n%s", i, len(ex.Contexts), desc)
					continue
				}
				cx := ex.Contexts[0]
				res.Count("admission_contexts_validated", 1)
				if cx["type"] != want.Typ || cx["binding"] != want.Binding {
					res.Violate("admission/type-or-binding", "admission run %d: type %v binding %v, expected %s %s\n%s", i, cx["type"], cx["binding"], want.Typ, want.Binding, desc)
				}
				snaps, has := cx["snapshots"].(map[string]any)
				if has != (want.Keys != nil) {
					res.Violate("admission/snapshots-presence/"+want.Typ, "snapshots present=%v, binding includes snapshots=%v\ncontext: %s\n%s", has, want.Keys != nil, vlib.JSON(cx), desc)
				} else if has && strings.Join(vlib.SortedKeys(snaps), ",") != strings.Join(want.Keys, ",") {
					res.Violate("admission/snapshots-keys/"+want.Typ, "snapshots has the keys %v, the binding includes %v\ncontext: %s\n%s", vlib.SortedKeys(snaps), want.Keys, vlib.JSON(cx), desc)
				}
				rv, _ := cx["review"].(map[string]any)
				rq, _ := rv["request"].(map[string]any)
				if !strings.HasPrefix(fmt.Sprint(rq["uid"]), "c09-adm") {
					res.Violate("admission/review-request", "review.request.uid %v\n%s", rq["uid"], desc)
				}
			}
			execs = execs[2:]
		}
		if len(execs) != len(order) {
			res.Violate("conversion/executions", "%d hook executions for %d single-step requests\n%s", len(execs), len(order), desc)
			return res
		}
		for k, ex := range execs {
			r := rules[order[k]]
			if len(ex.Contexts) != 1 {
				res.Violate("conversion/context-count", "execution %d received %d contexts\n%s", k, len(ex.Contexts), desc)
				continue
			}
			cx := ex.Contexts[0]
			res.Count("conversion_contexts_validated", 1)
			fail := func(sig, f string, a ...any) {
				res.Violate("conversion/"+sig, "request %d (rule %s -> %s): %s\ncontext: %s\n%s", k, r.From, r.To, fmt.Sprintf(f, a...), vlib.JSON(cx), desc)
			}
			if cx["type"] != "Conversion" || cx["binding"] != binding {
				fail("type-or-binding", "type %v binding %v", cx["type"], cx["binding"])
			}
			if cx["fromVersion"] != r.From || cx["toVersion"] != r.To {
				fail("versions-not-of-the-rule", "fromVersion %v toVersion %v, the rule that is served declares %s -> %s", cx["fromVersion"], cx["toVersion"], r.From, r.To)
			}
			rv, _ := cx["review"].(map[string]any)
			rq, _ := rv["request"].(map[string]any)
			if rq["uid"] != uids[k] || rq["desiredAPIVersion"] != r.To {
				fail("review-request", "review.request.uid %v desiredAPIVersion %v", rq["uid"], rq["desiredAPIVersion"])
			}
			_, hasSnap := cx["snapshots"]
			wantSnap := convIncl
			if hasSnap != wantSnap {
				fail("snapshots-presence", "snapshots present=%v, binding includes snapshots=%v", hasSnap, wantSnap)
			}
			for key := range cx {
				switch key {
				case "binding", "type", "fromVersion", "toVersion", "review", "snapshots":
				default:
					fail("unexpected-field-"+key, "field %q is not documented for a Conversion context", key)
				}
			}
		}
		res.Key = fmt.Sprintf("rules%d-%v", nRules, order)
		if c.Index < 2 {
			res.Sample = m{"case": desc}
		}
		return res
	})
}
