package checks

// C03 — a queue runs one task at a time, head first; queues do not block each other.
//
// Observations: handler enter/exit per queue (sequence numbers, head of the
// queue read at enter, task metadata), hook process intervals from the agents'
// system-wide monotonic clock, arrival order at the single events consumer
// (meh.received).

import (
	"fmt"
	"sort"
	"strings"
	"sync"
	"testing"
	"testing/synctest"
	"time"

	"github.com/flant/shell-operator/pkg/hook/task_metadata"
	kemtypes "github.com/flant/shell-operator/pkg/kube_events_manager/types"
	"github.com/flant/shell-operator/pkg/task"
	"github.com/flant/shell-operator/pkg/task/queue"

	"verif/harness/vhk"
	"verif/harness/vlib"
)

type c03binding struct {
	Hook    string
	Name    string
	Kind    string // schedule | kubernetes
	Crontab string
	Queue   string // "" = main (absent)
}

func (b c03binding) EffQueue() string {
	if b.Queue == "" {
		return "main"
	}
	return b.Queue
}

func TestC03(t *testing.T) {
	e := vlib.GetEnv()
	n := e.Pick(64, 6000)
	vlib.RunCases(t, "C03", "queues", n, func(c *vlib.Case) vlib.Result {
		var res vlib.Result
		c03run(c, &res)
		return res
	})
}

func c03run(c *vlib.Case, res *vlib.Result) {
	rng := c.Rng
	hs := vlib.NewHookSet(c.Dir, "hooks")
	nQ := 2 + rng.IntN(4)
	queues := []string{""}
	for i := 1; i < nQ; i++ {
		queues = append(queues, fmt.Sprintf("q%d", i))
	}
	crontabs := []string{"12 1 1 1 *", "13 1 1 1 *", "14 1 1 1 *"}
	nH := 2 + rng.IntN(5)
	var bindings []c03binding
	stall := []string{"none", "fail-forever", "parked-handler"}[rng.IntN(3)]
	stallHook := "h0"
	for h := 0; h < nH; h++ {
		hook := fmt.Sprintf("h%d", h)
		cfg := m{"configVersion": "v1"}
		var sch, kub []any
		nb := 1 + rng.IntN(3)
		for b := 0; b < nb; b++ {
			bd := c03binding{Hook: hook, Name: fmt.Sprintf("%s-b%d", hook, b), Queue: queues[rng.IntN(len(queues))]}
			if h == 0 {
				// the hook that may stall owns exactly one queue: qstall
				bd.Queue = "qstall"
			} else if bd.Queue == "qstall" {
				bd.Queue = ""
			}
			d := m{"name": bd.Name}
			if bd.Queue != "" {
				d["queue"] = bd.Queue
			}
			if rng.IntN(2) == 0 || h == 0 {
				bd.Kind = "schedule"
				bd.Crontab = crontabs[rng.IntN(len(crontabs))]
				if h == 0 {
					bd.Crontab = "15 1 1 1 *"
				}
				d["crontab"] = bd.Crontab
				sch = append(sch, d)
			} else {
				bd.Kind = "kubernetes"
				d["apiVersion"], d["kind"] = "v1", "ConfigMap"
				d["executeHookOnSynchronization"] = false
				kub = append(kub, d)
			}
			bindings = append(bindings, bd)
			if h == 0 {
				break
			}
		}
		if len(sch) > 0 {
			cfg["schedule"] = sch
		}
		if len(kub) > 0 {
			cfg["kubernetes"] = kub
		}
		hs.AddHook(hook, 0o755, cfgJSON(cfg))
		// real sleeps of a few ms make a real overlap of two processes visible
		hs.Plan(hook, -1, vhk.Directive{SleepMs: 1 + rng.IntN(6)})
	}
	if stall == "fail-forever" {
		hs.Plan(stallHook, -1, vhk.Directive{Exit: 1})
	}
	byName := map[string]c03binding{}
	for _, b := range bindings {
		byName[b.Name] = b
	}

	var log []vlib.PointEvent
	arrived := map[string][]string{}
	var handled []c03handled
	var hmu sync.Mutex
	var headMismatch []string
	var trace []string
	logf := func(f string, a ...any) { trace = append(trace, fmt.Sprintf(f, a...)) }
	injectedWhileStalled := map[string]int{} // binding -> contexts expected
	stallOK := true
	inBubble(c, func(t *testing.T) {
		sys, err := vlib.NewSys(hs, nil)
		if err != nil {
			res.Inconclusive = "assemble: " + err.Error()
			sys.StopNow()
			return
		}
		defer sys.Stop()
		sys.Pts.Record("q.handler.enter", "q.handler.exit", "meh.received")
		sys.Pts.On("q.handler.enter", func(ev vlib.PointEvent) {
			q := ev.Args[2].(*queue.TaskQueue)
			tk, _ := ev.Args[1].(task.Task)
			if head := q.GetFirst(); head != tk {
				hid := "<nil>"
				if head != nil {
					hid = head.GetDescription()
				}
				headMismatch = append(headMismatch, fmt.Sprintf("queue %s: handler entered with %s but the head is %s", q.Name, tk.GetDescription(), hid))
			}
		})
		sys.Pts.On("meh.received", func(ev vlib.PointEvent) {
			tasks, _ := ev.Args[0].([]task.Task)
			for _, tk := range tasks {
				hm := task_metadata.HookMetadataAccessor(tk)
				for _, bc := range hm.BindingContext {
					if _, ok := byName[bc.Binding]; ok {
						arrived[tk.GetQueueName()] = append(arrived[tk.GetQueueName()], c03ctxID(bc.Binding, bc.Objects))
					}
				}
			}
		})
		sys.Pts.On("q.handler.exit", func(ev vlib.PointEvent) {
			tk, _ := ev.Args[1].(task.Task)
			if tk == nil || tk.GetType() != task_metadata.HookRun {
				return
			}
			hm := task_metadata.HookMetadataAccessor(tk)
			var ids []string
			for _, bc := range hm.BindingContext {
				if _, ok := byName[bc.Binding]; ok {
					sfx := ""
					if bc.IsSynchronization() {
						sfx = "!sync"
					}
					ids = append(ids, c03ctxID(bc.Binding, bc.Objects)+sfx)
				}
			}
			hmu.Lock()
			handled = append(handled, c03handled{Queue: ev.Args[0].(string), Status: fmt.Sprint(ev.Args[3]), Ctx: ids})
			hmu.Unlock()
		})
		sys.Start()
		if !sys.Settle(100) {
			res.Inconclusive = "startup did not settle"
			return
		}
		gate := vlib.NewGate()
		defer gate.Release()
		// phase 1: bursts with everything healthy? only when no stall is planned for phase 2
		objN := 0
		burst := func(count int, only func(b c03binding) bool, expect map[string]int) {
			// a trigger is usable only if every binding it reaches passes the filter
			var okCrons []string
			for _, cr := range crontabs {
				n, ok := 0, true
				for _, b := range bindings {
					if b.Kind == "schedule" && b.Crontab == cr {
						n++
						if !only(b) {
							ok = false
						}
					}
				}
				if n > 0 && ok {
					okCrons = append(okCrons, cr)
				}
			}
			kubeOK, anyK := true, false
			for _, b := range bindings {
				if b.Kind == "kubernetes" {
					anyK = true
					if !only(b) {
						kubeOK = false
					}
				}
			}
			for i := 0; i < count; i++ {
				if rng.IntN(2) == 0 && len(okCrons) > 0 {
					cr := okCrons[rng.IntN(len(okCrons))]
					tick(sys, cr)
					for _, b := range bindings {
						if b.Kind == "schedule" && b.Crontab == cr && expect != nil {
							expect[b.Name]++
						}
					}
				} else if anyK && kubeOK {
					objN++
					_ = createCM(sys, "default", fmt.Sprintf("o%d", objN), objN)
					for _, b := range bindings {
						if b.Kind == "kubernetes" && expect != nil {
							expect[b.Name]++
						}
					}
				}
				if rng.IntN(4) == 0 {
					synctest.Wait()
				}
			}
			synctest.Wait()
		}
		burst(5+rng.IntN(20), func(b c03binding) bool { return b.Hook != stallHook }, nil)
		sys.Settle(100)
		// phase 2: stall queue qstall, then load the other queues
		switch stall {
		case "fail-forever":
			tick(sys, "15 1 1 1 *")
			sys.Advance(2 * time.Second)
		case "parked-handler":
			sys.Pts.On("op.afterHookRun", func(ev vlib.PointEvent) {
				if ev.Args[0].(string) == stallHook {
					gate.Park()
				}
			})
			tick(sys, "15 1 1 1 *")
			sys.Advance(time.Second)
			if !gate.Hit() {
				res.Inconclusive = "stall rendezvous did not arm"
				return
			}
		}
		burst(5+rng.IntN(30), func(b c03binding) bool { return b.Hook != stallHook }, injectedWhileStalled)
		// bounded progress at a quiescent point: 40 virtual seconds, then everything but qstall must be drained
		for i := 0; i < 20; i++ {
			sys.Advance(2 * time.Second)
		}
		for _, qn := range sys.QueueNames() {
			l := len(sys.QueueTasks(qn))
			logf("queue %s length %d after the stalled phase", qn, l)
			if qn != "qstall" && l != 0 {
				res.Violate("other-queue-delayed/"+stall, "queue %s still holds %d tasks 40 virtual seconds after the last event while only qstall is stalled (%s)\n%s", qn, l, stall, strings.Join(trace, "\n"))
			}
		}
		if stall == "fail-forever" && len(sys.QueueTasks("qstall")) == 0 {
			stallOK = false
		}
		log = sys.Pts.Log()
		gate.Release()
		if stall == "fail-forever" {
			// let the teardown settle: make the hook succeed from now on
			hs.Plan(stallHook, -1, vhk.Directive{})
		}
	})
	if res.Inconclusive != "" {
		return
	}
	desc := fmt.Sprintf("queues=%d hooks=%d stall=%s bindings=%v", nQ, nH, stall, func() []string {
		var s []string
		for _, b := range bindings {
			s = append(s, b.Name+"("+b.Kind+")->"+b.EffQueue())
		}
		return s
	}())
	// (2) head first
	for _, hm := range headMismatch {
		res.Violate("not-head", "%s\n%s", hm, desc)
	}
	// (1) intervals per queue disjoint, (3) right queue
	ivs := handlerIntervals(log)
	lastExit := map[string]int64{}
	executedCtx := map[string][]string{} // queue -> context ids in execution order (successful handlers)
	for _, iv := range ivs {
		if prev, ok := lastExit[iv.Queue]; ok && iv.EnterSeq < prev {
			res.Violate("handlers-overlap", "queue %s: handler entered at seq %d before the previous one exited at %d\n%s", iv.Queue, iv.EnterSeq, prev, desc)
		}
		if iv.ExitSeq != 0 {
			lastExit[iv.Queue] = iv.ExitSeq
		} else {
			lastExit[iv.Queue] = 1 << 62
		}
	}
	for _, h := range handled {
		for _, id := range h.Ctx {
			bname := strings.TrimSuffix(id, "!sync")
			if k := strings.IndexByte(bname, '/'); k >= 0 {
				bname = bname[:k]
			}
			b := byName[bname]
			if strings.HasSuffix(id, "!sync") {
				if h.Queue != "main" {
					res.Violate("synchronization-not-in-main", "Synchronization of %s handled in queue %s\n%s", bname, h.Queue, desc)
				}
				continue
			}
			res.Count("contexts_attributed_to_queues", 1)
			if b.EffQueue() != h.Queue {
				res.Violate("wrong-queue", "binding %s is configured for queue %q but its task was handled by the worker of queue %q\n%s", b.Name, b.EffQueue(), h.Queue, desc)
			}
			if h.Status == "Success" {
				executedCtx[h.Queue] = append(executedCtx[h.Queue], id)
			}
		}
	}
	// (4) FIFO per queue against arrival order at the events consumer (both captured at point time)
	for qn, got := range executedCtx {
		want := arrived[qn]
		// executed must be a prefix-preserving subsequence equal to the arrival order (nothing reordered);
		// tasks still queued at the end are a suffix of the arrivals
		if len(got) > len(want) || strings.Join(got, "|") != strings.Join(want[:len(got)], "|") {
			res.Violate("not-fifo", "queue %s executed contexts in the order\n  %v\nbut they were received in the order\n  %v\n%s", qn, got, want, desc)
		}
		res.Count("contexts_fifo_checked", int64(len(got)))
	}
	// (1b) process intervals of executions attributed to one queue must not overlap
	type pi struct {
		s, e int64
		id   string
	}
	perQ := map[string][]pi{}
	for _, ex := range hs.Executions() {
		if ex.End == nil || len(ex.Contexts) == 0 {
			continue
		}
		b, ok := byName[fmt.Sprint(ex.Contexts[0]["binding"])]
		if !ok {
			continue
		}
		qn := b.EffQueue()
		if fmt.Sprint(ex.Contexts[0]["type"]) == "Synchronization" {
			qn = "main"
		}
		perQ[qn] = append(perQ[qn], pi{ex.Begin.StartMono, ex.End.EndMono, fmt.Sprintf("%s#%d", ex.Hook, ex.N)})
	}
	for qn, l := range perQ {
		sort.Slice(l, func(i, j int) bool { return l[i].s < l[j].s })
		for i := 1; i < len(l); i++ {
			res.Count("process_interval_pairs_checked", 1)
			if l[i].s < l[i-1].e {
				res.Violate("processes-overlap", "queue %s: hook processes %s and %s overlapped in real time (%d ns)\n%s", qn, l[i-1].id, l[i].id, l[i-1].e-l[i].s, desc)
			}
		}
	}
	// (5) independence: everything injected during the stall was executed
	delivered := map[string]int{}
	for _, ex := range hs.Executions() {
		for _, cx := range ex.Contexts {
			if fmt.Sprint(cx["type"]) != "Synchronization" {
				delivered[fmt.Sprint(cx["binding"])]++
			}
		}
	}
	for b, n := range injectedWhileStalled {
		if delivered[b] < n {
			res.Violate("other-queue-starved/"+stall, "binding %s (queue %s): %d contexts injected while qstall was stalled, only %d delivered overall\n%s", b, byName[b].EffQueue(), n, delivered[b], desc)
		}
	}
	if !stallOK {
		res.Inconclusive = "the failing hook's queue was not stalled"
	}
	res.Count("handler_intervals", int64(len(ivs)))
	res.Key = fmt.Sprintf("q%d-h%d-%s-%d", nQ, nH, stall, len(ivs)/10)
	if c.Index < 3 {
		res.Sample = m{"config": desc, "handler_intervals": len(ivs), "arrival_order_per_queue": arrived}
	}
	res.Replay = m{"config": desc, "trace": trace}
}

func c03ctxID(binding string, objs []kemtypes.ObjectAndFilterResult) string {
	if len(objs) > 0 && objs[0].Object != nil {
		return binding + "/" + objs[0].Object.GetName()
	}
	return binding
}

type c03handled struct {
	Queue  string
	Status string
	Ctx    []string
}
