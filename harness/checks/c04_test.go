package checks

// C04 — failed runs are retried until success and block the queue unless
// allowFailure; contexts of a strict binding are never discarded.
//
// The whole operator runs in virtual time with vhook agents whose outcomes are
// scripted per execution. Observed: executions (contexts) at the process
// boundary, handler enter/exit per queue with virtual timestamps and returned
// status, queue content at the end.

import (
	"bytes"
	"encoding/json"
	"fmt"
	"net/http/httptest"
	"strings"
	"testing"
	"testing/synctest"
	"time"

	"github.com/flant/shell-operator/pkg/hook/task_metadata"

	"verif/harness/vhk"
	"verif/harness/vlib"
)

type c04case struct {
	Kind      string // onStartup sync event schedule group
	K         int    // failures before success
	FailKind  string
	HeadAllow bool
	Behind    string // none same-allow diff-allow other-hook
	Arrivals  int    // same-binding triggers injected during the first back-off
	Admission bool   // sync only: the hook also has a validating binding; a request for it arrives during the back-off
}

func (c c04case) String() string {
	return fmt.Sprintf("%s/k%d/%s/allow=%v/behind=%s/arrivals=%d", c.Kind, c.K, c.FailKind, c.HeadAllow, c.Behind, c.Arrivals)
}

const (
	c04cronSent = "1 1 1 1 *"
	c04cron1    = "2 2 2 2 *"
	c04cron2    = "3 3 3 3 *"
	c04cronB    = "4 4 4 4 *"
)

func c04catalogue() []c04case {
	var res []c04case
	for _, kind := range []string{"onStartup", "sync", "event", "schedule", "group", "group2"} {
		for _, k := range []int{0, 1, 2, 4} {
			for _, behind := range []string{"none", "same-allow", "diff-allow", "other-hook"} {
				for _, allow := range []bool{false, true} {
					if (kind == "onStartup") && allow {
						continue
					}
					if (kind == "onStartup" || kind == "sync") && (behind == "same-allow" || behind == "diff-allow") {
						continue
					}
					if kind == "group2" && behind != "same-allow" && behind != "diff-allow" {
						continue // group2: head and the task behind it belong to the same group
					}
					res = append(res, c04case{Kind: kind, K: k, HeadAllow: allow, Behind: behind})
				}
			}
		}
	}
	return res
}

func TestC04(t *testing.T) {
	e := vlib.GetEnv()
	cat := c04catalogue()
	n := e.Pick(len(cat), len(cat)*150)
	vlib.RunCases(t, "C04", "retry", n, func(c *vlib.Case) vlib.Result {
		var res vlib.Result
		rng := c.Rng
		cs := cat[c.Index%len(cat)]
		cs.FailKind = failKinds[(c.Index/len(cat)+c.Index)%len(failKinds)]
		if c.Index >= len(cat) {
			cs.K = rng.IntN(5)
			if e.Tier == "thorough" && rng.IntN(6) == 0 {
				cs.K = 5 + rng.IntN(8)
			}
		}
		if cs.K > 0 && (cs.Kind == "event" || cs.Kind == "schedule" || cs.Kind == "group") {
			cs.Arrivals = rng.IntN(3)
		}
		if cs.Kind == "sync" && !cs.HeadAllow && (c.Index/2)%2 == 1 {
			// an admission request for the same hook arrives while its failed Synchronization waits for the retry:
			// the request is served at once, on its own; the failed task stays where it is
			cs.K, cs.Admission = 1, true
		}
		c04run(c, cs, &res)
		res.Key = cs.String()
		return res
	})
}

func c04run(c *vlib.Case, cs c04case, res *vlib.Result) {
	hs := vlib.NewHookSet(c.Dir, "hooks")
	Q := "qx"
	behindAllow := cs.HeadAllow
	if cs.Behind == "diff-allow" {
		behindAllow = !cs.HeadAllow
	}
	// hook A
	cfgA := m{"configVersion": "v1"}
	var sched []any
	switch cs.Kind {
	case "onStartup":
		cfgA["onStartup"] = 1.0
	case "sync":
		cfgA["kubernetes"] = []any{m{"name": "kA", "apiVersion": "v1", "kind": "ConfigMap", "allowFailure": cs.HeadAllow}}
		if cs.Admission {
			cfgA["kubernetesValidating"] = []any{m{"name": "adm.example.com", "rules": []any{m{"apiGroups": []any{""}, "apiVersions": []any{"v1"}, "operations": []any{"CREATE"}, "resources": []any{"pods"}, "scope": "Namespaced"}}}}
		}
	case "event":
		cfgA["kubernetes"] = []any{m{"name": "kA", "apiVersion": "v1", "kind": "ConfigMap", "allowFailure": cs.HeadAllow, "queue": Q}}
	case "schedule":
		sched = append(sched, m{"name": "s1", "crontab": c04cron1, "queue": Q, "allowFailure": cs.HeadAllow})
	case "group", "group2":
		sched = append(sched, m{"name": "s1", "crontab": c04cron1, "queue": Q, "allowFailure": cs.HeadAllow, "group": "grp"})
	}
	if cs.Behind == "same-allow" || cs.Behind == "diff-allow" {
		s2 := m{"name": "s2", "crontab": c04cron2, "queue": Q, "allowFailure": behindAllow}
		if cs.Kind == "group2" {
			s2["group"] = "grp"
		}
		sched = append(sched, s2)
	}
	if len(sched) > 0 {
		cfgA["schedule"] = sched
	}
	hs.AddHook("100-a", 0o755, cfgJSON(cfgA))
	// hook B
	cfgB := m{"configVersion": "v1", "schedule": []any{m{"name": "sb", "crontab": c04cronB, "queue": Q}}}
	switch cs.Kind {
	case "onStartup":
		cfgB["onStartup"] = 2.0
	case "sync":
		cfgB["kubernetes"] = []any{m{"name": "kB", "apiVersion": "v1", "kind": "ConfigMap"}}
	}
	hs.AddHook("200-b", 0o755, cfgJSON(cfgB))
	// sentinel
	hs.AddHook("000-sentinel", 0o755, cfgJSON(m{"configVersion": "v1", "schedule": []any{m{"name": "sent", "crontab": c04cronSent, "queue": Q}}}))

	base := 0
	if cs.Kind == "event" {
		base = 1 // execution 0 of hook A is the Synchronization of kA
	}
	for i := 0; i < cs.K; i++ {
		hs.Plan("100-a", base+i, failDirective(cs.FailKind))
	}

	var trace []string
	logf := func(f string, a ...any) { trace = append(trace, fmt.Sprintf(f, a...)) }
	var ivs []*hIv
	var finalQueue []string
	injected := map[string]int{} // binding -> contexts injected
	releaseSeq := int64(0)

	inBubble(c, func(t *testing.T) {
		sys, err := vlib.NewSys(hs, nil)
		if err != nil {
			res.Inconclusive = "assemble: " + err.Error()
			sys.StopNow()
			return
		}
		defer sys.Stop()
		sys.Pts.Record("q.handler.enter", "q.handler.exit")
		_ = createCM(sys, "default", "preexisting", 0)
		if cs.Kind == "onStartup" || cs.Kind == "sync" {
			sys.Start()
			if cs.Admission {
				// wait for the first (failing) Synchronization attempt, then send the request during its back-off
				for i := 0; i < 40 && len(hs.Executions()) == 0; i++ {
					sys.Advance(250 * time.Millisecond)
				}
				sys.Advance(time.Second)
				if sys.Op.AdmissionWebhookManager != nil && sys.Op.AdmissionWebhookManager.Handler != nil {
					hs.Plan("100-a", 1, vhk.Directive{Admission: `{"allowed":true}`})
					review := m{"apiVersion": "admission.k8s.io/v1", "kind": "AdmissionReview", "request": m{
						"uid": "c04-admission", "kind": m{"group": "", "version": "v1", "kind": "Pod"}, "resource": m{"group": "", "version": "v1", "resource": "pods"},
						"name": "p", "namespace": "default", "operation": "CREATE", "object": m{"apiVersion": "v1", "kind": "Pod", "metadata": m{"name": "p", "namespace": "default"}},
					}}
					b, _ := json.Marshal(review)
					rec := httptest.NewRecorder()
					hreq := httptest.NewRequest("POST", "/hooks/adm-example-com", bytes.NewReader(b))
					hreq.Header.Set("Content-Type", "application/json")
					sys.Op.AdmissionWebhookManager.Handler.Router.ServeHTTP(rec, hreq)
					logf("admission request for hook 100-a served during the back-off of its failed Synchronization: HTTP %d", rec.Code)
				} else {
					res.Inconclusive = "admission handler not initialised"
					return
				}
			}
			if !sys.Settle(300) {
				res.Inconclusive = "startup did not settle"
			}
			releaseSeq = 0
		} else {
			sys.Start()
			if !sys.Settle(100) {
				res.Inconclusive = "startup did not settle"
				return
			}
			gate := vlib.NewGate()
			defer gate.Release()
			sys.Pts.On("q.handler.enter", func(ev vlib.PointEvent) {
				if ev.Args[0].(string) == Q {
					gate.Park()
				}
			})
			tick(sys, c04cronSent)
			sys.Advance(600 * time.Millisecond) // the idle worker looks at its queue every 250 ms
			if !gate.Hit() {
				res.Inconclusive = "sentinel rendezvous did not arm"
				return
			}
			// head trigger
			switch cs.Kind {
			case "event":
				_ = createCM(sys, "default", "obj-head", 1)
				injected["kA"]++
			default:
				tick(sys, c04cron1)
				injected["s1"]++
			}
			synctest.Wait()
			switch cs.Behind {
			case "same-allow", "diff-allow":
				tick(sys, c04cron2)
				injected["s2"]++
			case "other-hook":
				tick(sys, c04cronB)
				injected["sb"]++
			}
			synctest.Wait()
			releaseSeq = sys.Pts.NextSeq()
			gate.Release()
			if cs.Arrivals > 0 {
				time.Sleep(2 * time.Second)
				synctest.Wait()
				for i := 0; i < cs.Arrivals; i++ {
					switch cs.Kind {
					case "event":
						_ = createCM(sys, "default", fmt.Sprintf("obj-late%d", i), 1)
						injected["kA"]++
					default:
						tick(sys, c04cron1)
						injected["s1"]++
					}
					synctest.Wait()
				}
			}
			if !sys.Settle(300) {
				logf("did not settle within 600 virtual seconds")
			}
		}
		ivs = handlerIntervals(sys.Pts.Log())
		for _, qn := range sys.QueueNames() {
			for _, tk := range sys.QueueTasks(qn) {
				hm := task_metadata.HookMetadataAccessor(tk)
				for _, bc := range hm.BindingContext {
					finalQueue = append(finalQueue, qn+":"+hm.HookName+":"+bc.Binding)
				}
			}
		}
	})
	if res.Inconclusive != "" {
		return
	}
	execs := hs.Executions()
	if cs.Admission {
		// the admission run is an execution of hook 100-a outside the queues: judged by C14, set aside here
		var kept []*vlib.Execution
		seen := false
		for _, ex := range execs {
			if len(ex.Contexts) > 0 && fmt.Sprint(ex.Contexts[0]["type"]) == "Validating" && !seen {
				seen = true
				if len(ex.Contexts) != 1 {
					res.Violate("admission-run-absorbed-queued-tasks/sync", "the admission run of hook 100-a received %d binding contexts [%s]: it took over tasks waiting in the main queue", len(ex.Contexts), vlib.CtxSummary(ex.Contexts))
				}
				continue
			}
			kept = append(kept, ex)
		}
		if !seen {
			res.Inconclusive = "the admission request did not lead to a hook run"
			return
		}
		res.Count("admission_requests_during_a_backoff", 1)
		execs = kept
	}
	var aEx, bEx []*vlib.Execution
	for _, ex := range execs {
		switch ex.Hook {
		case "100-a":
			aEx = append(aEx, ex)
		case "200-b":
			bEx = append(bEx, ex)
		}
	}
	for _, ex := range execs {
		logf("exec %s#%d [%s] exit=%v", ex.Hook, ex.N, vlib.CtxSummary(ex.Contexts), func() any {
			if ex.End != nil {
				return ex.End.Exit
			}
			return "killed?"
		}())
	}
	res.Count("hook_executions_observed", int64(len(execs)))
	res.Replay = m{"case": cs.String(), "trace": trace}
	if c.Index < 4 {
		res.Sample = m{"case": cs.String(), "executions": trace}
	}
	desc := func() string { return cs.String() + "\n" + strings.Join(trace, "\n") }
	sigSuffix := cs.Kind

	// ----- attempts of the head task
	if len(aEx) < base+1 {
		res.Violate("head-never-executed/"+sigSuffix, "%s", desc())
		return
	}
	strict := !cs.HeadAllow
	wantAttempts := 1
	if strict {
		wantAttempts = cs.K + 1
	}
	attempts := aEx[base:]
	// the head context label
	headLbl := map[string]string{"onStartup": "onStartup", "sync": "kA/Synchronization", "event": "kA/Event/Added", "schedule": "s1/Schedule", "group": "s1/Group/grp", "group2": "s1/Group/grp"}[cs.Kind]
	if cs.Kind == "group2" && cs.Behind == "same-allow" {
		headLbl = "s2/Group/grp" // combined with the task behind it and compacted: the last context of the group survives
	}
	// consecutive executions that start with the head context (attempts of the same task)
	nAtt := 0
	for _, ex := range attempts {
		l := ctxLabels(ex.Contexts)
		if len(l) == 0 || l[0] != headLbl {
			break
		}
		nAtt++
	}
	if cs.K > 0 && strict {
		if nAtt < wantAttempts {
			res.Violate("not-retried-until-success/"+sigSuffix, "head task executed %d times, expected %d failures followed by a success\n%s", nAtt, cs.K, desc())
		}
		for i := 0; i+1 < nAtt && i+1 < wantAttempts; i++ {
			a, b := ctxLabels(attempts[i].Contexts), ctxLabels(attempts[i+1].Contexts)
			if !hasPrefix(b, a) {
				res.Violate("retry-lost-contexts/"+sigSuffix, "attempt %d had contexts %v, attempt %d has %v\n%s", i, a, i+1, b, desc())
			}
		}
	}
	if !strict && cs.K > 0 {
		// allowed failure: the failed execution is dropped, no retry of the same contexts
		if nAtt > 1 && cs.Arrivals == 0 && cs.Kind != "schedule" && cs.Kind != "group" && cs.Kind != "group2" {
			res.Violate("allowed-failure-retried/"+sigSuffix, "head task with allowFailure executed %d times\n%s", nAtt, desc())
		}
	}

	// ----- timing and blocking from the handler intervals of the head's queue
	qn := Q
	if cs.Kind == "onStartup" || cs.Kind == "sync" {
		qn = "main"
	}
	var qiv []*hIv
	for _, iv := range ivs {
		if iv.Queue == qn && iv.EnterSeq > releaseSeq && iv.ExitSeq != 0 {
			qiv = append(qiv, iv)
		}
	}
	// find the first Fail interval = first attempt of the head (when strict and K>0)
	if strict && cs.K > 0 {
		first := -1
		for i, iv := range qiv {
			if iv.Status == "Fail" {
				first = i
				break
			}
		}
		if first < 0 {
			res.Violate("failure-not-reported/"+sigSuffix+"/"+cs.FailKind, "no handler returned Fail although %d failures were scripted (%s)\n%s", cs.K, cs.FailKind, desc())
		} else {
			head := qiv[first].Task
			fails := 0
			for i := first; i < len(qiv); i++ {
				iv := qiv[i]
				if fails < cs.K {
					if iv.Task != head {
						res.Violate("queue-not-blocked/"+sigSuffix, "another task was handled in queue %s while the failed head task waited for its retry (handler #%d)\n%s", qn, i, desc())
						break
					}
					if iv.Status != "Fail" {
						res.Violate("retry-stopped-early/"+sigSuffix, "attempt %d returned %s, expected Fail (%d failures scripted)\n%s", fails, iv.Status, cs.K, desc())
						break
					}
					fails++
					if i+1 < len(qiv) {
						gap := qiv[i+1].EnterVT.Sub(iv.ExitVT)
						res.Count("retry_gaps_checked", 1)
						if gap < 5*time.Second {
							res.Violate("backoff-too-short/"+sigSuffix, "retry after %v, shorter than the initial delay of 5s\n%s", gap, desc())
						}
					}
					continue
				}
				// the successful attempt
				if iv.Task != head {
					res.Violate("queue-not-blocked/"+sigSuffix, "after %d failures another task ran before the head succeeded\n%s", fails, desc())
				} else if iv.Status != "Success" {
					res.Violate("no-success-after-failures/"+sigSuffix, "attempt %d returned %s\n%s", fails, iv.Status, desc())
				}
				break
			}
		}
	}

	// ----- blocking observed at the process boundary for main-queue kinds
	if (cs.Kind == "onStartup" || cs.Kind == "sync") && strict {
		// hook B must not run before A's successful attempt
		var succIdx = -1
		cnt := 0
		for i, ex := range execs {
			if ex.Hook == "100-a" {
				if cnt == base+cs.K {
					succIdx = i
				}
				cnt++
			}
		}
		for i, ex := range execs {
			if ex.Hook == "200-b" && succIdx >= 0 && i < succIdx {
				res.Violate("queue-not-blocked/"+sigSuffix, "hook 200-b ran (execution #%d in the global order) before 100-a succeeded (#%d)\n%s", i, succIdx, desc())
			}
		}
		if len(bEx) == 0 {
			res.Violate("next-task-never-ran/"+sigSuffix, "hook 200-b was never executed after 100-a succeeded\n%s", desc())
		}
	}

	// ----- never discarded: strict bindings' contexts all reach a successful execution or stay queued
	allowOf := map[string]bool{"kA": cs.HeadAllow, "s1": cs.HeadAllow, "s2": behindAllow, "sb": false}
	succCtx := map[string]int{}
	failedCtx := map[string]int{}
	for _, ex := range execs {
		ok := ex.End != nil && ex.End.Exit == 0 && !ex.End.Kill
		// executions scripted to fail with exit 0 (bad outputs) are failures too
		if ex.Hook == "100-a" && ex.N >= base && ex.N < base+cs.K {
			ok = false
		}
		for _, cx := range ex.Contexts {
			b := fmt.Sprint(cx["binding"])
			if fmt.Sprint(cx["type"]) == "Synchronization" {
				continue
			}
			if ok {
				succCtx[b]++
			} else {
				failedCtx[b]++
			}
		}
	}
	queued := map[string]int{}
	for _, q := range finalQueue {
		parts := strings.Split(q, ":")
		queued[parts[2]]++
	}
	for b, n := range injected {
		res.Count("contexts_injected", int64(n))
		if allowOf[b] {
			continue
		}
		got := succCtx[b] + queued[b]
		if cs.Kind == "group2" {
			// both bindings are in one group: combined tasks are compacted to the group's last context
			// (only when their allowFailure is equal, otherwise they are not combined): existence is
			// required, for equal allowFailure across the two bindings
			if cs.Behind == "same-allow" {
				got = succCtx["s1"] + succCtx["s2"] + queued["s1"] + queued["s2"]
			}
			if got == 0 {
				res.Violate("strict-context-discarded/"+sigSuffix+"/behind="+cs.Behind, "binding %s (allowFailure:false, group grp): %d contexts injected, no Group context of it reached a successful execution or stayed queued (failed executions carried %d)\n%s", b, n, failedCtx[b], desc())
			}
			continue
		}
		// grouped contexts may legally be compacted (C07): only existence is required
		if cs.Kind == "group" && b == "s1" {
			if got == 0 {
				res.Violate("strict-context-discarded/"+sigSuffix+"/behind="+cs.Behind, "binding %s (allowFailure:false): %d contexts injected, none reached a successful execution or stayed queued (failed executions carried %d)\n%s", b, n, failedCtx[b], desc())
			}
			continue
		}
		if got < n {
			res.Violate("strict-context-discarded/"+sigSuffix+"/behind="+cs.Behind, "binding %s (allowFailure:false): %d contexts injected, only %d reached a successful execution or stayed queued (failed executions carried %d)\n%s", b, n, got, failedCtx[b], desc())
		}
	}
}
