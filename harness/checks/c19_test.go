package checks

// C19 — shell framework dispatches each binding context to exactly one handler.
//
// Generated bash hooks source a copy of /repo/shell_lib.sh (only the hard-coded
// /frameworks/shell/ path is rewritten to the working tree's frameworks/shell/)
// and define a chosen subset of handler functions; every handler appends
// (name, current index, binding as seen through context::jq) to a trace file.
// Oracle: a reference dispatcher written from the statement.

import (
	"encoding/json"
	"fmt"
	"os"
	"os/exec"
	"path/filepath"
	"strings"
	"testing"

	"verif/harness/vlib"
)

type c19ctx struct {
	Shape string
	JSON  m
}

func c19candidates(c m) []string {
	b := fmt.Sprint(c["binding"])
	if b == "onStartup" {
		return []string{"__on_startup", "__main__"}
	}
	t, _ := c["type"].(string)
	var hs []string
	switch t {
	case "Synchronization":
		hs = []string{"__on_kubernetes::" + b + "::synchronization", "__on_kubernetes::" + b}
	case "Event":
		switch c["watchEvent"] {
		case "Added":
			hs = []string{"__on_kubernetes::" + b + "::added", "__on_kubernetes::" + b + "::added_or_modified", "__on_kubernetes::" + b}
		case "Modified":
			hs = []string{"__on_kubernetes::" + b + "::modified", "__on_kubernetes::" + b + "::added_or_modified", "__on_kubernetes::" + b}
		case "Deleted":
			hs = []string{"__on_kubernetes::" + b + "::deleted", "__on_kubernetes::" + b}
		}
	case "Group":
		hs = []string{"__on_group::" + fmt.Sprint(c["groupName"])}
	case "Schedule":
		hs = []string{"__on_schedule::" + b}
	case "Validating":
		hs = []string{"__on_validating::" + b}
	case "Mutating":
		hs = []string{"__on_mutating::" + b}
	case "Conversion":
		from := strings.Replace(fmt.Sprint(c["fromVersion"]), "/", ".", 1)
		to := strings.Replace(fmt.Sprint(c["toVersion"]), "/", ".", 1)
		hs = []string{"__on_conversion::" + b + "::" + from + "::" + to, "__on_conversion::" + b}
	}
	return append(hs, "__main__")
}

func TestC19(t *testing.T) {
	e := vlib.GetEnv()
	repo := os.Getenv("VERIF_REPO")
	if repo == "" {
		repo = "/repo"
	}
	n := e.Pick(320, 12000)
	vlib.RunCases(t, "C19", "dispatch", n, func(c *vlib.Case) vlib.Result {
		var res vlib.Result
		rng := c.Rng
		lib, err := os.ReadFile(filepath.Join(repo, "shell_lib.sh"))
		if err != nil {
			res.Inconclusive = "cannot read shell_lib.sh: " + err.Error()
			return res
		}
		libCopy := strings.ReplaceAll(string(lib), "/frameworks/shell/", filepath.Join(repo, "frameworks/shell")+"/")
		libPath := filepath.Join(c.Dir, "shell_lib.sh")
		_ = os.WriteFile(libPath, []byte(libCopy), 0o644)

		names := []string{"pods", "my-binding", "b.with.dots", "B_2", "x"}
		groups := []string{"grp", "g-2"}
		bname := func() string { return names[rng.IntN(len(names))] }
		obj := m{"apiVersion": "v1", "kind": "Pod", "metadata": m{"name": "p", "namespace": "d"}}
		mk := func(shape string) c19ctx {
			b := bname()
			switch shape {
			case "onStartup":
				return c19ctx{shape, m{"binding": "onStartup"}}
			case "Schedule":
				return c19ctx{shape, m{"binding": b, "type": "Schedule"}}
			case "Synchronization":
				return c19ctx{shape, m{"binding": b, "type": "Synchronization", "objects": []any{m{"object": obj}}}}
			case "Added", "Modified", "Deleted":
				return c19ctx{shape, m{"binding": b, "type": "Event", "watchEvent": shape, "object": obj}}
			case "Group":
				return c19ctx{shape, m{"binding": b, "type": "Group", "groupName": groups[rng.IntN(len(groups))], "snapshots": m{}}}
			case "Validating", "Mutating":
				return c19ctx{shape, m{"binding": b, "type": shape, "review": m{"request": m{"uid": "u1"}}}}
			case "Conversion":
				vs := []string{"v1", "v2", "stable.example.com/v1", "unstable.io/v1beta1"}
				return c19ctx{shape, m{"binding": b, "type": "Conversion", "fromVersion": vs[rng.IntN(len(vs))], "toVersion": vs[rng.IntN(len(vs))], "review": m{"request": m{"uid": "u2"}}}}
			}
			return c19ctx{"typeless", m{"binding": b}}
		}
		shapes := []string{"onStartup", "Schedule", "Synchronization", "Added", "Modified", "Deleted", "Group", "Validating", "Mutating", "Conversion", "typeless"}
		nCtx := rng.IntN(7)
		if c.Index%11 == 0 {
			nCtx = 0
		}
		var ctxs []c19ctx
		for i := 0; i < nCtx; i++ {
			ctxs = append(ctxs, mk(shapes[rng.IntN(len(shapes))]))
		}
		// handler universe = candidates of all contexts (+ a few irrelevant ones)
		uni := map[string]bool{}
		var order []string
		for _, cx := range ctxs {
			for _, h := range c19candidates(cx.JSON) {
				if !uni[h] {
					uni[h] = true
					order = append(order, h)
				}
			}
		}
		for _, h := range []string{"__on_kubernetes::other", "__on_schedule::nobody", "__on_group::none"} {
			if !uni[h] {
				uni[h] = true
				order = append(order, h)
			}
		}
		// subset: case index enumerates subsets when the universe is small, else random
		defined := map[string]int{} // handler -> exit status
		mask := uint64(c.Index/3) ^ uint64(rng.Uint64())
		if len(order) <= 8 {
			mask = uint64(c.Index) // consecutive cases enumerate masks; generator state differs per case anyway
			mask ^= rng.Uint64()
		}
		for i, h := range order {
			if mask&(1<<uint(i%64)) != 0 {
				st := 0
				if rng.IntN(7) == 0 {
					// 1, 3: explicit return status; 101: a command fails in the middle of the body (the strict
					// mode of the bundled library makes that a failure of the handler: nothing after it runs)
					st = []int{1, 3, 101}[rng.IntN(3)]
				}
				defined[h] = st
			}
		}
		if rng.IntN(3) != 0 {
			if _, ok := defined["__main__"]; !ok && rng.IntN(2) == 0 {
				defined["__main__"] = 0
			}
		}
		// script
		trace := filepath.Join(c.Dir, "trace")
		var sb strings.Builder
		sb.WriteString("#!/bin/bash\nsource " + libPath + "\n")
		sb.WriteString("function __config__() { echo \"CONFIG-" + fmt.Sprint(c.Index) + "\"; }\n")
		for _, h := range order {
			st, ok := defined[h]
			if !ok {
				continue
			}
			tail := fmt.Sprintf("return %d", st)
			if st == 0 {
				// a handler runs in its own subshell: leaving it with exit, relaxing the strict mode or changing
				// IFS there concerns that handler only
				switch rng.IntN(10) {
				case 0:
					tail = "exit 0"
				case 1:
					tail = "set +e\n  return 0"
				case 2:
					tail = "IFS=$'\\n'\n  return 0"
				}
			}
			if st == 101 {
				tail = fmt.Sprintf("false\n  echo \"CONTINUED-AFTER-FAILED-COMMAND|%s\" >> %s\n  return 0", h, trace)
			}
			// a quarter of the handlers read their standard input (as `kubectl exec -i`, `ssh` or a plain `read`
			// would): a handler's stdin is the hook's own, nothing of the framework's
			stdin := ""
			switch rng.IntN(8) {
			case 0:
				stdin = "cat > /dev/null\n  "
			case 1:
				stdin = "read -r _line || true\n  "
			}
			sb.WriteString(fmt.Sprintf("function %s() {\n  %secho \"%s|${BINDING_CONTEXT_CURRENT_INDEX}|${BINDING_CONTEXT_CURRENT_BINDING}|$(context::jq -r '.binding // \"unknown\"')\" >> %s\n  %s\n}\n", h, stdin, h, trace, tail))
		}
		sb.WriteString("hook::run \"$@\"\n")
		script := filepath.Join(c.Dir, "hook.sh")
		_ = os.WriteFile(script, []byte(sb.String()), 0o755)
		var arr []any
		for _, cx := range ctxs {
			arr = append(arr, cx.JSON)
		}
		if arr == nil {
			arr = []any{}
		}
		ctxBytes, _ := json.MarshalIndent(arr, "", "  ")
		ctxPath := filepath.Join(c.Dir, "ctx.json")
		_ = os.WriteFile(ctxPath, ctxBytes, 0o644)

		// reference
		var wantTrace []string
		wantFail := false
		for i, cx := range ctxs {
			chosen := ""
			for _, h := range c19candidates(cx.JSON) {
				if _, ok := defined[h]; ok {
					chosen = h
					break
				}
			}
			if chosen == "" {
				wantFail = true
				break
			}
			b := fmt.Sprint(cx.JSON["binding"])
			wantTrace = append(wantTrace, fmt.Sprintf("%s|%d|%s|%s", chosen, i, b, b))
			if defined[chosen] != 0 {
				wantFail = true
				break
			}
		}
		run := func(args ...string) (string, int) {
			cmd := exec.Command("bash", append([]string{script}, args...)...)
			cmd.Env = append(os.Environ(), "BINDING_CONTEXT_PATH="+ctxPath)
			cmd.Dir = c.Dir
			out, err := cmd.Output()
			code := 0
			if err != nil {
				code = -1
				if ee, ok := err.(*exec.ExitError); ok {
					code = ee.ExitCode()
				}
			}
			return string(out), code
		}
		// --config
		out, code := run("--config")
		var shapeNames []string
		for _, cx := range ctxs {
			shapeNames = append(shapeNames, cx.Shape)
		}
		var defNames []string
		for _, h := range order {
			if st, ok := defined[h]; ok {
				defNames = append(defNames, fmt.Sprintf("%s=%d", h, st))
			}
		}
		desc := fmt.Sprintf("contexts=%s defined=%v", string(ctxBytes), defNames)
		if strings.TrimSpace(out) != fmt.Sprintf("CONFIG-%d", c.Index) || code != 0 {
			res.Violate("config-mode", "hook::run --config printed %q exit %d; %s", out, code, desc)
		}
		if b, _ := os.ReadFile(trace); len(b) > 0 {
			res.Violate("config-mode-ran-handler", "--config invoked handlers: %s; %s", b, desc)
			_ = os.Remove(trace)
		}
		_, code = run()
		tb, _ := os.ReadFile(trace)
		gotTrace := strings.Fields(strings.ReplaceAll(strings.TrimSpace(string(tb)), " ", "_"))
		if strings.TrimSpace(string(tb)) == "" {
			gotTrace = nil
		}
		res.Count("hook_runs", 1)
		res.Count("contexts_dispatched", int64(len(wantTrace)))
		cls := "none"
		if len(gotTrace) > 0 || len(wantTrace) > 0 {
			// class: shape of the first context whose trace line differs
			for i := 0; i < len(ctxs); i++ {
				g, w := "", ""
				if i < len(gotTrace) {
					g = gotTrace[i]
				}
				if i < len(wantTrace) {
					w = wantTrace[i]
				}
				if g != w {
					cls = ctxs[i].Shape
					break
				}
			}
		}
		if strings.Join(gotTrace, "\n") != strings.Join(wantTrace, "\n") {
			res.Violate("dispatch/"+cls, "handlers invoked:\n  %s\nreference dispatcher:\n  %s\n%s", strings.Join(gotTrace, "\n  "), strings.Join(wantTrace, "\n  "), desc)
		}
		if wantFail && code == 0 {
			res.Violate("status/success-although-failed/"+cls, "run exited 0 although a handler failed or no candidate was defined; trace %v; %s", gotTrace, desc)
		}
		if !wantFail && code != 0 {
			res.Violate("status/failure-although-ok/"+cls, "run exited %d although every context had a succeeding handler; trace %v; %s", code, gotTrace, desc)
		}
		if len(ctxs) > 0 {
			res.Key = fmt.Sprintf("%s|def%d|fail%v", strings.Join(shapeNames, ","), len(defined), wantFail)
		} else if c.Index%11 == 0 {
			res.Key = "empty-array"
		}
		if c.Index < 3 {
			res.Sample = m{"contexts": arr, "defined_handlers(=exit status)": defNames, "expected_trace": wantTrace, "expected_failure": wantFail}
		}
		res.Replay = m{"contexts": arr, "defined": defNames, "want": wantTrace, "got": gotTrace, "exit": code}
		return res
	})
}
