package checks

// C07 — combining adjacent tasks keeps every binding context, in order.
//
// (a) the exported CombineBindingContextForHook on generated queue layouts,
//     compared with a reference combine/compact function written from the
//     statement; exhaustive for short layouts over a reduced alphabet, random
//     for longer/richer ones; plus a controlled schedule in which a producer
//     appends tasks while the combiner is parked between its Iterate and its
//     Filter.
// (b) the unexported twin through the running operator: see c07sys_test.go.

import (
	"context"
	"fmt"
	"strings"
	"testing"

	bctx "github.com/flant/shell-operator/pkg/hook/binding_context"
	"github.com/flant/shell-operator/pkg/hook/task_metadata"
	htypes "github.com/flant/shell-operator/pkg/hook/types"
	shell_operator "github.com/flant/shell-operator/pkg/shell-operator"
	"github.com/flant/shell-operator/pkg/task"
	"github.com/flant/shell-operator/pkg/task/queue"

	"verif/harness/vlib"
)

type c7ctx struct {
	Label string
	Group string
}

type c7task struct {
	Hook   string
	Type   string // HookRun | Other
	NoMeta bool
	Ctx    []c7ctx
	MonIDs []string
	Stop   bool // the stopCombineFn answers true for this task
	id     string
}

func (t c7task) String() string {
	if t.NoMeta {
		return "<nometa>"
	}
	var cs []string
	for _, c := range t.Ctx {
		cs = append(cs, c.Label+":"+c.Group)
	}
	s := fmt.Sprintf("%s/%s[%s]", t.Hook, t.Type, strings.Join(cs, " "))
	if len(t.MonIDs) > 0 {
		s += fmt.Sprintf("m%v", t.MonIDs)
	}
	if t.Stop {
		s += "!stop"
	}
	return s
}

func c7build(layout []c7task) (*shell_operator.ShellOperator, *queue.TaskQueue, []task.Task) {
	op := shell_operator.NewShellOperator(context.Background())
	op.TaskQueues = queue.NewTaskQueueSet()
	op.TaskQueues.WithContext(context.Background())
	op.TaskQueues.NewNamedQueue("q7", func(task.Task) queue.TaskResult { return queue.TaskResult{} })
	q := op.TaskQueues.GetByName("q7")
	var tasks []task.Task
	for i := range layout {
		lt := &layout[i]
		tk := task.NewTask(task.TaskType(lt.Type)).WithQueueName("q7")
		lt.id = tk.GetId()
		if !lt.NoMeta {
			var bcs []bctx.BindingContext
			for _, c := range lt.Ctx {
				bc := bctx.BindingContext{Binding: c.Label}
				bc.Metadata.Group = c.Group
				bc.Metadata.BindingType = htypes.Schedule
				bcs = append(bcs, bc)
			}
			tk.WithMetadata(task_metadata.HookMetadata{HookName: lt.Hook, BindingContext: bcs, MonitorIDs: lt.MonIDs, BindingType: htypes.Schedule})
		}
		q.AddLast(tk)
		tasks = append(tasks, tk)
	}
	return op, q, tasks
}

type c7expect struct {
	Nil      bool
	Ctx      []string // labels after compaction
	MonIDs   []string
	QueueIdx []int // indices of the layout remaining in the queue
}

// c7reference is the statement as a function.
func c7reference(layout []c7task, useStop bool) c7expect {
	head := layout[0]
	if head.NoMeta {
		idx := make([]int, len(layout))
		for i := range idx {
			idx[i] = i
		}
		return c7expect{Nil: true, QueueIdx: idx}
	}
	var merged []int
	for i := 1; i < len(layout); i++ {
		t := layout[i]
		if t.NoMeta || t.Hook != head.Hook || t.Type != head.Type {
			break
		}
		if useStop && t.Stop {
			break
		}
		merged = append(merged, i)
	}
	exp := c7expect{}
	isMerged := map[int]bool{}
	for _, i := range merged {
		isMerged[i] = true
	}
	for i := range layout {
		if !isMerged[i] {
			exp.QueueIdx = append(exp.QueueIdx, i)
		}
	}
	if len(merged) == 0 {
		exp.Nil = true
		return exp
	}
	var all []c7ctx
	all = append(all, head.Ctx...)
	exp.MonIDs = append(exp.MonIDs, head.MonIDs...)
	for _, i := range merged {
		all = append(all, layout[i].Ctx...)
		exp.MonIDs = append(exp.MonIDs, layout[i].MonIDs...)
	}
	for i, c := range all {
		if c.Group != "" && i+1 < len(all) && all[i+1].Group == c.Group {
			continue
		}
		exp.Ctx = append(exp.Ctx, c.Label)
	}
	return exp
}

// c7check judges both combiners of the tree on one layout: the exported CombineBindingContextForHook (a copy kept
// for addon-operator) and the one the operator's task handler calls (reached through the verif-tagged VerifCombine).
func c7check(res *vlib.Result, layout []c7task, useStop bool, sigPrefix string) bool {
	a := c7checkImpl(res, layout, useStop, sigPrefix, false)
	b := c7checkImpl(res, layout, useStop, sigPrefix+"handler-combiner/", true)
	return a && b
}

func c7checkImpl(res *vlib.Result, layout []c7task, useStop bool, sigPrefix string, handlerImpl bool) bool {
	layout = append([]c7task{}, layout...)
	op, q, tasks := c7build(layout)
	exp := c7reference(layout, useStop)
	var stopFn func(task.Task) bool
	if useStop {
		stops := map[string]bool{}
		for _, lt := range layout {
			if lt.Stop {
				stops[lt.id] = true
			}
		}
		stopFn = func(t task.Task) bool { return stops[t.GetId()] }
	}
	var got *shell_operator.CombineResult
	if handlerImpl {
		got = op.VerifCombine(q, tasks[0], stopFn)
	} else {
		got = op.CombineBindingContextForHook(q, tasks[0], stopFn)
	}
	return c7compare(res, layout, exp, got, q, sigPrefix)
}

func c7compare(res *vlib.Result, layout []c7task, exp c7expect, got *shell_operator.CombineResult, q *queue.TaskQueue, sigPrefix string) bool {
	desc := func() string {
		var s []string
		for _, t := range layout {
			s = append(s, t.String())
		}
		return strings.Join(s, " | ")
	}
	ok := true
	// queue remainder
	var remain []string
	q.Iterate(func(t task.Task) {
		if t == nil {
			remain = append(remain, "<nil>")
			return
		}
		remain = append(remain, t.GetId())
	})
	var wantRemain []string
	for _, i := range exp.QueueIdx {
		wantRemain = append(wantRemain, layout[i].id)
	}
	if strings.Join(remain, ",") != strings.Join(wantRemain, ",") {
		idx := map[string]int{}
		for i, t := range layout {
			idx[t.id] = i
		}
		var ri []int
		for _, id := range remain {
			if i, ok := idx[id]; ok {
				ri = append(ri, i)
			} else {
				ri = append(ri, -1)
			}
		}
		res.Violate(sigPrefix+"queue-remainder", "layout %s: queue afterwards holds layout positions %v, expected %v", desc(), ri, exp.QueueIdx)
		ok = false
	}
	if exp.Nil {
		if got != nil {
			res.Violate(sigPrefix+"unexpected-combine", "layout %s: nothing to merge, but a result with %d contexts was returned", desc(), len(got.BindingContexts))
			ok = false
		}
		return ok
	}
	if got == nil {
		res.Violate(sigPrefix+"missing-combine", "layout %s: tasks should have been merged, result is nil", desc())
		return false
	}
	var labels []string
	for _, bc := range got.BindingContexts {
		labels = append(labels, bc.Binding)
	}
	if strings.Join(labels, ",") != strings.Join(exp.Ctx, ",") {
		res.Violate(sigPrefix+"contexts", "layout %s: contexts %v, expected %v", desc(), labels, exp.Ctx)
		ok = false
	}
	if strings.Join(got.MonitorIDs, ",") != strings.Join(exp.MonIDs, ",") {
		res.Violate(sigPrefix+"monitor-ids", "layout %s: monitor ids %v, expected %v", desc(), got.MonitorIDs, exp.MonIDs)
		ok = false
	}
	return ok
}

func TestC07Lib(t *testing.T) {
	e := vlib.GetEnv()
	// reduced alphabet for the exhaustive part
	var alpha []c7task
	for _, h := range []string{"A", "B"} {
		for _, ty := range []string{"HookRun", "Other"} {
			for _, g := range []string{"", "g1", "g2"} {
				alpha = append(alpha, c7task{Hook: h, Type: ty, Ctx: []c7ctx{{Group: g}}})
			}
		}
	}
	alpha = append(alpha, c7task{NoMeta: true, Type: "HookRun"})
	maxLen := e.Pick(5, 6)
	// one case per (length, first two symbols); the head is restricted to hook A
	// (hooks are symmetric) or no-metadata.
	type prefix struct{ n, a, b int }
	var prefixes []prefix
	heads := []int{}
	for i, a := range alpha {
		if a.NoMeta || a.Hook == "A" {
			heads = append(heads, i)
		}
	}
	for n := 1; n <= maxLen; n++ {
		for _, a := range heads {
			if n == 1 {
				prefixes = append(prefixes, prefix{n, a, -1})
				continue
			}
			for b := range alpha {
				prefixes = append(prefixes, prefix{n, a, b})
			}
		}
	}
	vlib.RunCases(t, "C07", "lib-exhaustive", len(prefixes), func(c *vlib.Case) vlib.Result {
		var res vlib.Result
		p := prefixes[c.Index]
		rest := p.n - 2
		if rest < 0 {
			rest = 0
		}
		idx := make([]int, rest)
		layouts := 0
		merges := 0
		for {
			layout := []c7task{alpha[p.a]}
			if p.b >= 0 {
				layout = append(layout, alpha[p.b])
			}
			for _, k := range idx {
				layout = append(layout, alpha[k])
			}
			// fresh labels
			for i := range layout {
				if !layout[i].NoMeta {
					layout[i].Ctx = []c7ctx{{Label: fmt.Sprintf("c%d", i), Group: layout[i].Ctx[0].Group}}
				}
			}
			layouts++
			if !c7reference(layout, false).Nil {
				merges++
			}
			if !c7check(&res, layout, false, "lib/") {
				break
			}
			i := len(idx) - 1
			for i >= 0 {
				idx[i]++
				if idx[i] < len(alpha) {
					break
				}
				idx[i] = 0
				i--
			}
			if i < 0 {
				break
			}
		}
		res.Count("layouts_exhaustive", int64(layouts))
		res.Count("layouts_with_merge", int64(merges))
		if merges > 0 {
			res.Key = fmt.Sprintf("len%d-%d-%d", p.n, p.a, p.b)
		}
		if c.Index%53 == 0 {
			res.Sample = map[string]any{"length": p.n, "head": alpha[p.a].String(), "second": p.b, "layouts": layouts, "with_merge": merges}
		}
		return res
	})

	nRand := e.Pick(60, 30000)
	vlib.RunCases(t, "C07", "lib-random", nRand, func(c *vlib.Case) vlib.Result {
		var res vlib.Result
		rng := c.Rng
		var sample []string
		merges := 0
		for s := 0; s < 50; s++ {
			n := 1 + rng.IntN(10)
			layout := make([]c7task, n)
			lbl := 0
			mon := 0
			useStop := rng.IntN(4) == 0
			for i := range layout {
				lt := c7task{Hook: []string{"A", "A", "A", "B", "C"}[rng.IntN(5)], Type: []string{"HookRun", "HookRun", "HookRun", "Other"}[rng.IntN(4)]}
				if i > 0 && rng.IntN(12) == 0 {
					lt.NoMeta = true
				}
				runGroup := []string{"", "g1", "g2"}[rng.IntN(3)]
				for k := 1 + rng.IntN(3); k > 0; k-- {
					g := runGroup
					if rng.IntN(3) == 0 {
						g = []string{"", "g1", "g2"}[rng.IntN(3)]
					}
					lt.Ctx = append(lt.Ctx, c7ctx{Label: fmt.Sprintf("c%d", lbl), Group: g})
					lbl++
				}
				for k := rng.IntN(3); k > 0; k-- {
					lt.MonIDs = append(lt.MonIDs, fmt.Sprintf("m%d", mon))
					mon++
				}
				if useStop && rng.IntN(5) == 0 {
					lt.Stop = true
				}
				layout[i] = lt
			}
			layout[0].Hook = "A"
			layout[0].Type = "HookRun"
			if !c7reference(layout, useStop).Nil {
				merges++
			}
			if s == 0 {
				for _, lt := range layout {
					sample = append(sample, lt.String())
				}
			}
			if !c7check(&res, layout, useStop, "lib/") {
				break
			}
		}
		res.Count("layouts_random", 50)
		res.Count("layouts_with_merge", int64(merges))
		if merges > 0 {
			res.Key = fmt.Sprintf("rand-%d", c.Index)
		}
		if c.Index < 2 {
			res.Sample = map[string]any{"first_layout": sample}
		}
		return res
	})

	// concurrent producer while the combiner is parked between Iterate and Filter
	nConc := e.Pick(100, 20000)
	vlib.RunCases(t, "C07", "lib-concurrent-append", nConc, func(c *vlib.Case) vlib.Result {
		var res vlib.Result
		rng := c.Rng
		n := 1 + rng.IntN(6)
		layout := make([]c7task, n)
		for i := range layout {
			layout[i] = c7task{Hook: []string{"A", "A", "B"}[rng.IntN(3)], Type: "HookRun", Ctx: []c7ctx{{Label: fmt.Sprintf("c%d", i), Group: []string{"", "g1"}[rng.IntN(2)]}}}
		}
		layout[0].Hook = "A"
		op, q, tasks := c7build(layout)
		exp := c7reference(layout, false)
		pts := vlib.InstallPoints()
		defer pts.Uninstall()
		gate := vlib.NewGate()
		pts.On("combine.betweenIterateAndFilter", func(ev vlib.PointEvent) { gate.Park() })
		done := make(chan *shell_operator.CombineResult, 1)
		go func() {
			if c.Index%2 == 1 {
				done <- op.VerifCombine(q, tasks[0], nil) // the task handler's combiner
				return
			}
			done <- op.CombineBindingContextForHook(q, tasks[0], nil)
		}()
		<-gate.Arrived
		// producer: append tasks of the same hook (and sometimes of another one)
		k := 1 + rng.IntN(3)
		for i := 0; i < k; i++ {
			lt := c7task{Hook: []string{"A", "A", "B"}[rng.IntN(3)], Type: "HookRun", Ctx: []c7ctx{{Label: fmt.Sprintf("late%d", i)}}}
			tk := task.NewTask("HookRun").WithQueueName("q7")
			tk.WithMetadata(task_metadata.HookMetadata{HookName: lt.Hook, BindingContext: []bctx.BindingContext{{Binding: lt.Ctx[0].Label}}})
			lt.id = tk.GetId()
			q.AddLast(tk)
			layout = append(layout, lt)
			exp.QueueIdx = append(exp.QueueIdx, len(layout)-1)
		}
		gate.Release()
		got := <-done
		c7compare(&res, layout, exp, got, q, "lib-concurrent/")
		res.Count("rendezvous_fired", 1)
		res.Count("tasks_appended_during_combine", int64(k))
		res.Key = fmt.Sprintf("n%d-k%d-merge%v-%d", n, k, !exp.Nil, c.Index%16)
		if c.Index < 2 {
			var s []string
			for _, lt := range layout {
				s = append(s, lt.String())
			}
			res.Sample = map[string]any{"layout(with late tasks)": s, "schedule": "combiner parked at combine.betweenIterateAndFilter; producer AddLast x" + fmt.Sprint(k) + "; release"}
		}
		return res
	})
	// free-running producer: no rendezvous, a long queue (so that the delete step takes a while) and a goroutine
	// that keeps appending while the combiner works; conservation: every appended task is in the queue afterwards
	nFree := e.Pick(40, 4000)
	vlib.RunCases(t, "C07", "lib-free-running-append", nFree, func(c *vlib.Case) vlib.Result {
		var res vlib.Result
		rng := c.Rng
		n := 200 + rng.IntN(400)
		layout := make([]c7task, n)
		for i := range layout {
			layout[i] = c7task{Hook: "A", Type: "HookRun", Ctx: []c7ctx{{Label: fmt.Sprintf("c%d", i)}}}
		}
		op, q, tasks := c7build(layout)
		k := 100 + rng.IntN(300)
		var lateIDs []string
		start := make(chan struct{})
		prodDone := make(chan struct{})
		go func() {
			defer close(prodDone)
			<-start
			for i := 0; i < k; i++ {
				tk := task.NewTask("HookRun").WithQueueName("q7")
				tk.WithMetadata(task_metadata.HookMetadata{HookName: "B", BindingContext: []bctx.BindingContext{{Binding: fmt.Sprintf("late%d", i)}}})
				lateIDs = append(lateIDs, tk.GetId())
				q.AddLast(tk)
			}
		}()
		close(start)
		var got *shell_operator.CombineResult
		if c.Index%2 == 1 {
			got = op.VerifCombine(q, tasks[0], nil) // the task handler's combiner
		} else {
			got = op.CombineBindingContextForHook(q, tasks[0], nil)
		}
		<-prodDone
		inQueue := map[string]bool{}
		q.Iterate(func(tk task.Task) { inQueue[tk.GetId()] = true })
		lost := 0
		for _, id := range lateIDs {
			if !inQueue[id] {
				lost++
			}
		}
		if lost > 0 {
			res.Violate("lib-free-running/appended-task-lost", "%d of %d tasks of another hook appended while %d tasks were being combined are neither delivered nor in the queue afterwards", lost, k, n)
		}
		if got == nil || len(got.BindingContexts) != n {
			cnt := -1
			if got != nil {
				cnt = len(got.BindingContexts)
			}
			res.Violate("lib-free-running/contexts", "combined %d contexts, the queue held %d mergeable tasks", cnt, n)
		}
		if !inQueue[tasks[0].GetId()] {
			res.Violate("lib-free-running/head-removed", "the head task is not in the queue after the combination")
		}
		res.Count("tasks_appended_during_combine", int64(k))
		res.Key = fmt.Sprintf("free-n%d-k%d", n/100, k/100)
		return res
	})

}
