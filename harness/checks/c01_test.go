package checks

// C01 — no cluster change is lost between Synchronization and later Events.
//
// The shared kubernetes workload runs the whole operator over the vcluster;
// mutations are issued at the phases of startup where events can get lost
// (between AddMonitor and StartMonitor, while the Synchronization hook runs,
// right after the unlock, steady state) and controlled schedules (recipes)
// place a snapshot reader, an informer callback, the unlock and the namespace
// callback in chosen orders using the rendezvous points.
//
// Oracle, per non-grouped binding: V = objects of the successful
// Synchronization execution, D = Events delivered afterwards (one serial queue).
// For every object the expected trace of fired events is computed from the
// ground truth, starting at the state V shows (or, if V shows the object absent,
// at the latest absent state: most favourable to the code); the delivered trace
// must contain it as a suffix (earlier extra events are legal duplicates).
// Also: no Event before the binding's Synchronization completed, generations per
// object never decrease, no phantom events. Grouped bindings: the last Group
// execution must show the final matching set when the last relevant change fired.

import (
	"context"
	"fmt"
	"os"
	"sort"
	"strings"
	"testing"
	"testing/synctest"
	"time"

	"github.com/deckhouse/deckhouse/pkg/log"

	"github.com/flant/shell-operator/pkg/hook/config"
	kubeeventsmanager "github.com/flant/shell-operator/pkg/kube_events_manager"
	kemtypes "github.com/flant/shell-operator/pkg/kube_events_manager/types"
	metricstorage "github.com/flant/shell-operator/pkg/metric_storage"

	"verif/harness/vlib"
)

type c01ev struct {
	Type string
	Gen  int
}

func (e c01ev) String() string { return fmt.Sprintf("%s@%d", e.Type, e.Gen) }

var c01recipes = []string{"none", "none", "R1b-reader-parked-after-reset", "R4b-namespace-added-after-flag", "R1-reader-parked-after-copy", "R2-event-parked-after-flag-read", "R3-second-reader-while-locked", "R4-namespace-added-during-unlock", "R5-event-parked-after-cache-update", "R6-slow-consumer", "ns-scope-changes", "R7-initial-add-lags-behind-view", "R8-namespace-list-held-during-unlock", "R9-shared-informer-and-namespace-recreated", "R10-second-binding-synchronization-retried"}

func TestC01(t *testing.T) {
	e := vlib.GetEnv()
	n := e.Pick(72, 12000)
	vlib.RunCases(t, "C01", "events", n, func(c *vlib.Case) vlib.Result {
		var res vlib.Result
		recipe := c01recipes[c.Index%len(c01recipes)]
		// every seventh round over the recipes runs with watch faults (independent of the recipe index: with 14
		// recipes "index%7" would pin the faults to two fixed recipes and never judge their completeness clause)
		opts := map[string]bool{"watch-faults": (c.Index/len(c01recipes))%7 == 3, "no-dynamic-ns": true}
		if recipe == "R9-shared-informer-and-namespace-recreated" || recipe == "R10-second-binding-synchronization-retried" {
			opts["watch-faults"] = false
		}
		if recipe == "ns-scope-changes" || strings.HasPrefix(recipe, "R4") || strings.HasPrefix(recipe, "R8") || strings.HasPrefix(recipe, "R9") {
			opts["no-dynamic-ns"] = false
		}
		kc := genKCase(c.Rng, opts)
		kc.Recipe = recipe
		c01shape(kc, recipe, c.Rng)
		install, drive, steady := c01recipe(recipe, kc)
		rec := runKCaseR(c, kc, false, install, drive, steady)
		if rec.Inconclusive != "" {
			res.Inconclusive = rec.Inconclusive
			return res
		}
		if os.Getenv("VERIF_DUMP") != "" {
			fmt.Fprintln(os.Stderr, "DUMP", recipe, "\n"+rec.describe())
		}
		c01validate(&res, rec, recipe, opts["watch-faults"])
		for a := range rec.Armed {
			res.Count("armed/"+a, 1)
		}
		shapes := map[string]bool{}
		for _, kh := range kc.Hooks {
			for _, b := range kh.Binds {
				shapes[fmt.Sprintf("%s/%v/%v", b.SelShape, b.Group != "", b.Jq != "")] = true
			}
		}
		res.Key = fmt.Sprintf("%s|%s|armed=%s", recipe, strings.Join(vlib.SortedKeys(shapes), "+"), strings.Join(vlib.SortedKeys(rec.Armed), "+"))
		if c.Index < 2 {
			res.Sample = m{"recipe": recipe, "case": rec.describe()}
		}
		res.Replay = m{"recipe": recipe, "case": rec.describe()}
		return res
	})
}

// c01shape adapts the generated case so that the recipe can bite: the first
// binding of the first hook selects ns1 objects with all events enabled.
func c01shape(kc *kcase, recipe string, rng interface{ IntN(int) int }) {
	if recipe == "none" || recipe == "ns-scope-changes" {
		return
	}
	b := &kc.Hooks[0].Binds[0]
	b.Group, b.Events, b.OnSync, b.KeepFull, b.Include = "", nil, true, true, nil
	switch recipe {
	case "R4-namespace-added-during-unlock", "R4b-namespace-added-after-flag", "R8-namespace-list-held-during-unlock":
		b.SelShape, b.Sel = "ns-labels", vlib.KSel{NsLabels: map[string]string{"watch": "yes"}}
		// no other namespace.labelSelector binding (see genKCase)
		for hi := range kc.Hooks {
			for bi := range kc.Hooks[hi].Binds {
				ob := &kc.Hooks[hi].Binds[bi]
				if ob != b && ob.SelShape == "ns-labels" {
					ob.SelShape, ob.Sel = "all-namespaces", vlib.KSel{}
				}
			}
		}
		// the dynamic namespaces must not exist before the recipe creates them
		clean := func(ops []kop) []kop {
			var r []kop
			for _, o := range ops {
				if strings.HasPrefix(o.Ns, "dyn") {
					continue
				}
				r = append(r, o)
			}
			return r
		}
		kc.Pre, kc.Between, kc.Mid = clean(kc.Pre), nil, nil
	case "R10-second-binding-synchronization-retried":
		// one hook, two ungrouped bindings with separate Synchronization tasks, the second in its own queue;
		// objects appear while the first binding's Synchronization hook runs; the second binding's first
		// Synchronization attempt fails and waits out its back-off: its buffered changes must not reach the hook
		// as Events before its own Synchronization has succeeded
		b.SelShape, b.Sel = "all-namespaces", vlib.KSel{}
		b.Jq, b.Queue = "", ""
		second := kbind{Hook: kc.Hooks[0].Rel, Name: "second", SelShape: "all-namespaces", Queue: "q1", OnSync: true, KeepFull: true}
		kc.Hooks[0].Binds = append(kc.Hooks[0].Binds[:1], second)
		kc.Hooks[0].SyncFail = 0
		kc.Hooks[0].FailAt = []int{1}
		kc.Hooks = kc.Hooks[:1]
		kc.Between = nil
		kc.Mid = []kop{{Op: "put", Ns: "ns1", Name: "r10", Lbl: map[string]string{"sel": "x"}}, {Op: "put", Ns: "ns1", Name: "r10", Lbl: map[string]string{"sel": "y"}}}
		return
	case "R9-shared-informer-and-namespace-recreated":
		// two bindings whose informers for namespace dyn1 are one shared informer: the first selects dyn1 by
		// namespace label (and starts the shared informer), the second names dyn1; dyn1 is deleted and
		// re-created later: the second binding must keep receiving events
		b.SelShape, b.Sel = "ns-labels", vlib.KSel{NsLabels: map[string]string{"watch": "yes"}}
		b.Jq, b.Queue = "", ""
		second := kbind{Hook: kc.Hooks[0].Rel, Name: "static", SelShape: "ns-names", Sel: vlib.KSel{NsNames: []string{"dyn1"}}, OnSync: true, KeepFull: true}
		kc.Hooks[0].Binds = append(kc.Hooks[0].Binds[:1], second)
		kc.Hooks[0].SyncFail = 0
		kc.Hooks = kc.Hooks[:1]
		kc.Pre = []kop{{Op: "put", Ns: "dyn1", Name: "a", Lbl: map[string]string{"sel": "x"}}}
		kc.Between, kc.Mid = nil, nil
		kc.Post = []kop{{Op: "put", Ns: "dyn1", Name: "a", Lbl: map[string]string{"sel": "y"}}, {Op: "ns-delete", Ns: "dyn1"}, {Op: "put", Ns: "dyn1", Name: "r9", Lbl: map[string]string{"sel": "x"}}, {Op: "put", Ns: "dyn1", Name: "r9", Lbl: map[string]string{"sel": "y"}}, {Op: "delete", Ns: "dyn1", Name: "r9"}}
		return
	case "R7-initial-add-lags-behind-view":
		b.SelShape, b.Sel = "all-namespaces", vlib.KSel{}
		if rng.IntN(2) == 0 {
			b.Events = []string{"Modified"}
		}
		// an object known to AddMonitor's list is modified before the informer lists it itself
		kc.Pre = append(kc.Pre, kop{Op: "put", Ns: "ns1", Name: "r7", Lbl: map[string]string{"sel": "x"}})
		kc.Between = []kop{{Op: "put", Ns: "ns1", Name: "r7", Lbl: map[string]string{"sel": "y"}}}
		kc.Mid = nil
		return
	case "R3-second-reader-while-locked":
		b.SelShape, b.Sel = "all-namespaces", vlib.KSel{}
		// a second binding in another queue that includes b's snapshot is the second reader
		kc.Hooks[0].Binds = append(kc.Hooks[0].Binds[:1], kbind{Hook: kc.Hooks[0].Rel, Name: "reader", SelShape: "names", Sel: vlib.KSel{Names: []string{"zz"}, NsNames: []string{"ns2"}}, Queue: "qreader", OnSync: false, KeepFull: true, Include: []string{b.Name}})
	default:
		b.SelShape, b.Sel = "all-namespaces", vlib.KSel{}
	}
	if !strings.HasPrefix(recipe, "R4") && !strings.HasPrefix(recipe, "R8") {
		kc.Between, kc.Mid = nil, nil
	}
}

// waitHit advances virtual time until the gate has a parked goroutine (or gives up).
func waitHit(sys *vlib.Sys, g *vlib.Gate) bool {
	for i := 0; i < 200 && !g.Hit(); i++ {
		sys.Advance(200 * time.Millisecond)
	}
	synctest.Wait()
	return g.Hit()
}

// c01recipe returns the rendezvous installation (before Start), the schedule driver (run on the harness
// goroutine right after Start) and the steady-state action of a recipe.
func c01recipe(recipe string, kc *kcase) (install, drive, steady func(sys *vlib.Sys, rec *krecord)) {
	switch recipe {
	case "R1-reader-parked-after-copy", "R1b-reader-parked-after-reset":
		// the Synchronization run's snapshot reader is parked right after it copied the cache
		// (R1b: between the buffer reset and the copy);
		// an object is created and its event runs to completion (cached + buffered); then the reader continues.
		var gate *vlib.Gate
		install = func(sys *vlib.Sys, rec *krecord) {
			gate = vlib.NewGate() // created inside the bubble: parking on it is durable
			pt := "ri.snap.afterCopy"
			if recipe == "R1b-reader-parked-after-reset" {
				pt = "ri.snap.afterReset"
			}
			sys.Pts.On(pt, func(ev vlib.PointEvent) { gate.Park() })
			sysCleanup(sys, gate)
		}
		drive = func(sys *vlib.Sys, rec *krecord) {
			if !waitHit(sys, gate) {
				return
			}
			rec.Armed[recipe] = true
			applyOps(rec.VC, []kop{{Op: "put", Ns: "ns1", Name: "r1-new", Lbl: map[string]string{"sel": "x"}}}, "R1: after the reader copied the cache", rec, nil, kc)
			synctest.Wait()
			gate.Release()
		}
	case "R2-event-parked-after-flag-read":
		// an event has read eventCbEnabled=false and is parked before it appends to the buffer;
		// the unlock (enableKubeEventCb) runs; then the event continues.
		var evGate *vlib.Gate
		var hookGate *vlib.Gate
		install = func(sys *vlib.Sys, rec *krecord) {
			evGate = vlib.NewGate()   // created inside the bubble: parking on it is durable
			hookGate = vlib.NewGate() // created inside the bubble: parking on it is durable
			sys.Pts.On("op.afterHookRun", func(ev vlib.PointEvent) {
				if ev.Args[3].(bool) && fmt.Sprint(ev.Args[2]) == "Success" {
					hookGate.Park() // Synchronization hook done, unlock not yet performed
				}
			})
			sys.Pts.On("ri.ev.afterFlagRead", func(ev vlib.PointEvent) {
				if !ev.Args[5].(bool) && fmt.Sprint(ev.Args[3]) == "ns1/ConfigMap/r2-new" {
					evGate.Park()
				}
			})
			sysCleanup(sys, evGate, hookGate)
		}
		drive = func(sys *vlib.Sys, rec *krecord) {
			if !waitHit(sys, hookGate) {
				return
			}
			applyOps(rec.VC, []kop{{Op: "put", Ns: "ns1", Name: "r2-new", Lbl: map[string]string{"sel": "x"}}}, "R2: while the Synchronization hook runs", rec, nil, kc)
			synctest.Wait()
			if evGate.Hit() {
				rec.Armed[recipe] = true
			}
			hookGate.Release() // the unlock runs while the event is parked
			synctest.Wait()
			evGate.Release()
			synctest.Wait()
		}
	case "R3-second-reader-while-locked":
		// while the Synchronization hook of the target binding "runs" (parked before the unlock), an event is
		// buffered and then another reader (the debug endpoint's dump) reads the target's snapshot.
		var hookGate *vlib.Gate
		install = func(sys *vlib.Sys, rec *krecord) {
			hookGate = vlib.NewGate() // created inside the bubble: parking on it is durable
			sys.Pts.On("op.afterHookRun", func(ev vlib.PointEvent) {
				if ev.Args[3].(bool) && fmt.Sprint(ev.Args[2]) == "Success" {
					hookGate.Park()
				}
			})
			sysCleanup(sys, hookGate)
		}
		drive = func(sys *vlib.Sys, rec *krecord) {
			if !waitHit(sys, hookGate) {
				return
			}
			applyOps(rec.VC, []kop{{Op: "put", Ns: "ns1", Name: "r3-new", Lbl: map[string]string{"sel": "x"}}}, "R3: while the Synchronization hook runs", rec, nil, kc)
			synctest.Wait()
			h := sys.Op.HookManager.GetHook(kc.Hooks[0].Rel)
			_ = h.HookController.SnapshotsDump()
			rec.Armed[recipe] = true
			rec.Trace = append(rec.Trace, "R3: SnapshotsDump() (debug endpoint) read every snapshot while the target binding is still locked")
			hookGate.Release()
			synctest.Wait()
		}
	case "R4-namespace-added-during-unlock", "R4b-namespace-added-after-flag":
		// EnableKubeEventCb is parked between its two halves (flag for future informers / loop over the
		// existing ones); a matching namespace appears meanwhile.
		var gate *vlib.Gate
		install = func(sys *vlib.Sys, rec *krecord) {
			gate = vlib.NewGate() // created inside the bubble: parking on it is durable
			pt := "mon.enable.beforeFlag"
			if recipe == "R4b-namespace-added-after-flag" {
				pt = "mon.enable.afterFlag"
			}
			sys.Pts.On(pt, func(ev vlib.PointEvent) { gate.Park() })
			sysCleanup(sys, gate)
		}
		drive = func(sys *vlib.Sys, rec *krecord) {
			if !waitHit(sys, gate) {
				return
			}
			rec.VC.EnsureNamespace("dyn1", map[string]string{"watch": "yes"})
			rec.Trace = append(rec.Trace, "[R4: unlock parked before the flag for future informers is set] namespace dyn1 appears with labels map[watch:yes]")
			sys.Advance(400 * time.Millisecond)
			rec.Armed[recipe] = true
			gate.Release()
			synctest.Wait()
		}
		steady = func(sys *vlib.Sys, rec *krecord) {
			applyOps(rec.VC, []kop{{Op: "put", Ns: "dyn1", Name: "r4-new", Lbl: map[string]string{"sel": "x"}}, {Op: "put", Ns: "dyn1", Name: "r4-new", Lbl: map[string]string{"sel": "y"}}}, "R4: steady state, in the namespace that appeared during the unlock", rec, sys, kc)
		}
	case "R8-namespace-list-held-during-unlock":
		// a matching namespace appears while the Synchronization hook runs; the namespace callback of the
		// target binding is held at the entry of CreateInformersForNamespace (before its list requests: a slow API round-trip) while the unlock
		// (EnableKubeEventCb) runs completely; then the list returns. The new informers must end up unlocked.
		var hookGate, listGate *vlib.Gate
		install = func(sys *vlib.Sys, rec *krecord) {
			hookGate = vlib.NewGate() // created inside the bubble: parking on it is durable
			listGate = vlib.NewGate()
			sys.Pts.On("op.afterHookRun", func(ev vlib.PointEvent) {
				if ev.Args[3].(bool) && fmt.Sprint(ev.Args[2]) == "Success" && fmt.Sprint(ev.Args[0]) == kc.Hooks[0].Rel {
					hookGate.Park()
				}
			})
			// (not a list reactor of the fake client: the fake holds its mutex while reactors run, so a parked
			// reactor would block every other client call on a mutex and freeze the bubble)
			mon := ""
			if h := sys.Op.HookManager.GetHook(kc.Hooks[0].Rel); h != nil {
				for _, kb := range h.Config.OnKubernetesEvents {
					if kb.BindingName == kc.Hooks[0].Binds[0].Name {
						mon = kb.Monitor.Metadata.MonitorId
					}
				}
			}
			sys.Pts.On("mon.createForNs.enter", func(ev vlib.PointEvent) {
				if mon != "" && ev.Args[0].(string) == mon && fmt.Sprint(ev.Args[1]) == "dyn1" {
					listGate.Park()
				}
			})
			sysCleanup(sys, hookGate, listGate)
		}
		drive = func(sys *vlib.Sys, rec *krecord) {
			if !waitHit(sys, hookGate) {
				return
			}
			rec.VC.EnsureNamespace("dyn1", map[string]string{"watch": "yes"})
			rec.Trace = append(rec.Trace, "[R8: Synchronization hook done, unlock not yet performed] namespace dyn1 appears with labels map[watch:yes]; its first list request is held")
			if waitHit(sys, listGate) {
				rec.Armed[recipe] = true
			}
			hookGate.Release() // the unlock runs while the namespace callback waits for its list
			sys.Advance(400 * time.Millisecond)
			listGate.Release()
			sys.Advance(400 * time.Millisecond)
		}
		steady = func(sys *vlib.Sys, rec *krecord) {
			applyOps(rec.VC, []kop{{Op: "put", Ns: "dyn1", Name: "r8-new", Lbl: map[string]string{"sel": "x"}}, {Op: "put", Ns: "dyn1", Name: "r8-new", Lbl: map[string]string{"sel": "y"}}}, "R8: steady state, in the namespace whose list was held during the unlock", rec, sys, kc)
		}
	case "R5-event-parked-after-cache-update":
		// legal duplicate: an event updates the cache and is parked; the Synchronization run then reads the
		// snapshot (sees the object) and drops the buffer; the event is buffered afterwards and replayed at the
		// unlock, although the view already contains it. Must NOT be reported.
		var startGate *vlib.Gate // the Synchronization HookRun task, before it reads anything
		var evGate *vlib.Gate
		var doneGate *vlib.Gate // after the hook ran, before the unlock
		install = func(sys *vlib.Sys, rec *krecord) {
			startGate = vlib.NewGate() // created inside the bubble: parking on it is durable
			evGate = vlib.NewGate()    // created inside the bubble: parking on it is durable
			doneGate = vlib.NewGate()  // created inside the bubble: parking on it is durable
			sys.Pts.On("op.afterRateLimitWait", func(ev vlib.PointEvent) { startGate.Park() })
			sys.Pts.On("ri.ev.afterCache", func(ev vlib.PointEvent) {
				if fmt.Sprint(ev.Args[3]) == "ns1/ConfigMap/r5-new" {
					evGate.Park()
				}
			})
			sys.Pts.On("op.afterHookRun", func(ev vlib.PointEvent) {
				if ev.Args[3].(bool) && fmt.Sprint(ev.Args[2]) == "Success" {
					doneGate.Park()
				}
			})
			sysCleanup(sys, startGate, evGate, doneGate)
		}
		drive = func(sys *vlib.Sys, rec *krecord) {
			if !waitHit(sys, startGate) {
				return
			}
			applyOps(rec.VC, []kop{{Op: "put", Ns: "ns1", Name: "r5-new", Lbl: map[string]string{"sel": "x"}}}, "R5: before the Synchronization run reads the snapshot", rec, nil, kc)
			synctest.Wait()
			if evGate.Hit() {
				rec.Armed[recipe] = true
			}
			startGate.Release() // the reader copies the cache (with r5-new) and clears the buffer; the hook runs
			if !waitHit(sys, doneGate) {
				evGate.Release()
				return
			}
			evGate.Release() // now the event is buffered
			synctest.Wait()
			doneGate.Release() // unlock: the buffered event is replayed
			synctest.Wait()
		}
	case "R7-initial-add-lags-behind-view":
		// client-go reports HasSynced as soon as the initial list is queued for the handlers, not when the
		// handlers have run: the informer's own initial Add of an object that AddMonitor's list already
		// cached (and that changed in between) is held back until the Synchronization hook got its view and
		// the binding is unlocked. The change is a modification of an object of the view.
		var gate *vlib.Gate
		install = func(sys *vlib.Sys, rec *krecord) {
			gate = vlib.NewGate() // created inside the bubble: parking on it is durable
			mon := ""
			if h := sys.Op.HookManager.GetHook(kc.Hooks[0].Rel); h != nil {
				for _, kb := range h.Config.OnKubernetesEvents {
					if kb.BindingName == kc.Hooks[0].Binds[0].Name {
						mon = kb.Monitor.Metadata.MonitorId
					}
				}
			}
			sys.Pts.On("ri.ev.enter", func(ev vlib.PointEvent) {
				if mon != "" && ev.Args[0].(string) == mon && fmt.Sprint(ev.Args[3]) == "ns1/ConfigMap/r7" && fmt.Sprint(ev.Args[4]) == "Added" {
					gate.Park()
				}
			})
			sysCleanup(sys, gate)
		}
		steady = func(sys *vlib.Sys, rec *krecord) {
			if gate.Hit() {
				rec.Armed[recipe] = true
				rec.Trace = append(rec.Trace, "R7: the informer's initial Add of ns1/r7 was held back until now (after the Synchronization run and the unlock)")
			}
			gate.Release()
			sys.Settle(100)
		}
	case "R9-shared-informer-and-namespace-recreated", "R10-second-binding-synchronization-retried":
		install = func(sys *vlib.Sys, rec *krecord) { rec.Armed[recipe] = true }
	case "R6-slow-consumer":
		// the single events consumer is slow: the capacity-1 channel back-pressures the informers
		install = func(sys *vlib.Sys, rec *krecord) {
			sys.Pts.On("meh.received", func(ev vlib.PointEvent) {
				time.Sleep(700 * time.Millisecond)
			})
			rec.Armed[recipe] = true
		}
	}
	return install, drive, steady
}

// sysCleanup releases gates when the operator is torn down, so that no goroutine stays parked.
func sysCleanup(sys *vlib.Sys, gates ...*vlib.Gate) {
	sys.OnStop(func() {
		for _, g := range gates {
			g.Release()
		}
	})
}

func c01validate(res *vlib.Result, rec *krecord, recipe string, faults bool) {
	vc := rec.VC
	desc := rec.describe
	for _, kh := range rec.KC.Hooks {
		for bi := range kh.Binds {
			b := &kh.Binds[bi]
			if b.Name == "reader" {
				continue
			}
			hb := kh.Rel + "/" + b.Name
			// executions of the hook in log order; the binding's contexts
			var syncExec *kexec
			var syncObjs map[string]int
			type dev struct {
				c01ev
				Key  string
				Exec *kexec
			}
			var delivered []dev
			var lastGroup *kexec
			for _, ex := range rec.Execs {
				if ex.Hook != kh.Rel {
					continue
				}
				for _, cx := range ex.Contexts {
					if fmt.Sprint(cx["type"]) == "Group" {
						// compaction keeps the last context of a run of one group, whichever binding it came from
						if b.Group != "" && fmt.Sprint(cx["groupName"]) == b.Group && exitOf(ex.Execution) == 0 {
							lastGroup = ex
						}
						continue
					}
					if fmt.Sprint(cx["binding"]) != b.Name {
						continue
					}
					switch fmt.Sprint(cx["type"]) {
					case "Synchronization":
						if exitOf(ex.Execution) == 0 && ex.Status != "Fail" {
							syncExec = ex
							items, _ := c02items(cx["objects"])
							syncObjs = map[string]int{}
							for _, it := range items {
								key := it.Key
								if key == "" {
									for k := range vc.History {
										if _, _, ok := vc.StateByGen(k, it.Gen); ok && it.Gen != 0 {
											key = k
										}
									}
								}
								if key != "" {
									syncObjs[key] = it.Gen
								}
							}
						}
					case "Event":
						if exitOf(ex.Execution) != 0 {
							continue // a failed execution is retried with the same contexts: judge the retry
						}
						id := itemID(map[string]any{"object": cx["object"], "filterResult": cx["filterResult"]})
						var gen int
						key := ""
						if at := strings.LastIndexByte(id, '@'); at >= 0 {
							fmt.Sscanf(id[at+1:], "%d", &gen)
							key = id[:at]
						}
						if key == "?" || key == "" {
							for k := range vc.History {
								if _, _, ok := vc.StateByGen(k, gen); ok && gen != 0 {
									key = k
								}
							}
						}
						delivered = append(delivered, dev{c01ev{fmt.Sprint(cx["watchEvent"]), gen}, key, ex})
					case "Group":
						if exitOf(ex.Execution) == 0 {
							lastGroup = ex
						}
					}
				}
			}
			identifiable := b.KeepFull || b.Jq == ".data" || b.Jq == "{g: .data.gen}" || b.Jq == ".data.gen" || b.Jq == "[.data.gen, .metadata.name]"
			if b.Group != "" {
				c01group(res, rec, kh, b, lastGroup, recipe, faults)
				continue
			}
			if !identifiable {
				continue
			}
			if b.OnSync && syncExec == nil {
				res.Violate("synchronization-missing", "binding %s never received a successful Synchronization\n%s", hb, desc())
				continue
			}
			// clause 1: no Event before the Synchronization completed
			if b.OnSync {
				for _, d := range delivered {
					if d.Exec.EnterSeq != 0 && syncExec.ExitSeq != 0 && d.Exec.EnterSeq < syncExec.ExitSeq {
						res.Violate("event-before-sync/"+recipe, "binding %s: Event %s of %s was handed to the hook in execution #%d, which started before the Synchronization execution #%d had completed\n%s", hb, d.c01ev, d.Key, d.Exec.Idx, syncExec.Idx, desc())
					}
				}
			}
			// per object
			perObj := map[string][]c01ev{}
			for _, d := range delivered {
				perObj[d.Key] = append(perObj[d.Key], d.c01ev)
			}
			keys := map[string]bool{}
			for k := range vc.History {
				keys[k] = true
			}
			for key := range keys {
				h := vc.History[key]
				parts := strings.SplitN(key, "/", 2)
				present := make([]bool, len(h))
				proj := make([]string, len(h))
				any := false
				for i, st := range h {
					sel := b.Sel
					nsOK := true
					if len(sel.NsLabels) > 0 {
						// namespace scope is evaluated on the namespace's final labels here; cases with
						// namespace scope changes are classified separately below
						l, ok := vc.NsLabels(parts[0])
						nsOK = ok && subsetLabels(sel.NsLabels, l)
						sel.NsLabels = nil
					}
					present[i] = nsOK && vc.Matches(sel, parts[0], parts[1], st)
					if present[i] {
						any = true
						if b.Jq == "" {
							proj[i] = fmt.Sprint(st.Gen)
						} else if v, err := jqRef(b.Jq, vlib.BuildCM(parts[0], parts[1], st).Object); err == nil {
							proj[i] = vlib.JSON(v)
						}
					}
				}
				got := perObj[key]
				if !any && len(got) == 0 {
					continue
				}
				// clause 3: generations never decrease
				for i := 1; i < len(got); i++ {
					if got[i].Gen < got[i-1].Gen {
						res.Violate("order/"+recipe, "binding %s object %s: events %v arrived out of order\n%s", hb, key, got, desc())
					}
				}
				// clause 4: no phantom
				for _, g := range got {
					_, idx, ok := vc.StateByGen(key, g.Gen)
					real := false
					if ok {
						switch g.Type {
						case "Added", "Modified":
							real = present[idx] || len(b.Sel.NsLabels) > 0
						case "Deleted":
							real = true
						}
					}
					if !real {
						res.Violate("phantom/"+recipe, "binding %s object %s: delivered %s does not correspond to a state of a matching object\n%s", hb, key, g, desc())
					}
				}
				if faults {
					continue // coalescing after relists is legal: final state is judged by C02
				}
				if !b.OnSync {
					continue // no view is given: there is no "later" to be complete about
				}
				// start index
				k := -1
				vGen, inV := syncObjs[key]
				if !b.OnSync {
					inV = false
				}
				if inV {
					_, k, _ = vc.StateByGen(key, vGen)
				} else {
					// The view did not show the object: it was taken at some point at which the object was absent.
					// The latest such point that may still precede the view is the last absent state that was not
					// written at steady state (steady-state writes are issued after the start-up has settled, i.e.
					// definitely after the view): everything after it is a "later change".
					for i := range h {
						if !present[i] && !c01afterView(rec.PhaseOf[h[i].Gen]) {
							k = i
						}
					}
				}
				// expected fired events after index k. States written before the informer's own list
				// (phases pre-start and between-AddMonitor-and-StartMonitor) are observable only through
				// the last of them: the informer lists once, it never sees the intermediate ones.
				listIdx := -1
				for j := range h {
					if ph := rec.PhaseOf[h[j].Gen]; ph == "pre-start" || ph == "between-AddMonitor-and-StartMonitor" {
						listIdx = j
					}
				}
				var walk []int
				for j := k + 1; j < len(h); j++ {
					if j < listIdx {
						continue
					}
					walk = append(walk, j)
				}
				var want []c01ev
				cached, has := "", false
				if k >= 0 && present[k] {
					cached, has = proj[k], true
				}
				prev := k
				for _, j := range walk {
					prevPresent := prev >= 0 && present[prev]
					switch {
					case present[j] && !prevPresent:
						if b.Listed("Added") && (!has || cached != proj[j]) {
							want = append(want, c01ev{"Added", h[j].Gen})
						}
						cached, has = proj[j], true
					case present[j] && prevPresent:
						if b.Listed("Modified") && (!has || cached != proj[j]) {
							want = append(want, c01ev{"Modified", h[j].Gen})
						}
						cached, has = proj[j], true
					case !present[j] && prevPresent:
						if b.Listed("Deleted") {
							want = append(want, c01ev{"Deleted", h[prev].Gen})
						}
						cached, has = "", false
					}
					prev = j
				}
				res.Count("object_traces_checked", 1)
				if !c01suffix(got, want, h) {
					cls := "lost/" + recipe
					// classify the first missing event by the phase in which its change was written
					miss := c01firstMissing(got, want, h)
					phase := rec.PhaseOf[miss.Gen]
					if miss.Type == "Deleted" {
						if _, idx, ok := vc.StateByGen(key, miss.Gen); ok && idx+1 < len(h) {
							phase = rec.PhaseOf[h[idx+1].Gen]
						}
					}
					if recipe == "none" || recipe == "ns-scope-changes" || recipe == "R6-slow-consumer" {
						cls = "lost/phase=" + strings.ReplaceAll(strings.SplitN(phase, ":", 2)[0], " ", "-")
					}
					if len(b.Sel.NsLabels) > 0 && len(vc.NsHist[parts[0]]) > 1 {
						// The object's namespace was relabelled or deleted (and possibly re-created) during the case.
						// The known finding covers objects that were inside the namespace when it left or entered the
						// binding's scope (no Deleted / no Added for them). A change written while the namespace was
						// in scope is an ordinary change: if it is missing, it is lost.
						g := miss.Gen
						if miss.Type == "Deleted" {
							if _, idx, ok := vc.StateByGen(key, miss.Gen); ok && idx+1 < len(h) {
								g = h[idx+1].Gen
							}
						}
						l, ok := vc.NsLabelsAtGen(parts[0], g)
						if !(ok && subsetLabels(b.Sel.NsLabels, l) && c01afterView(rec.PhaseOf[g])) || (miss.Type == "Deleted" && vc.LeftWithNamespace(parts[0], g)) {
							cls = "lost-or-stale/ns-scope-change"
						}
					}
					if (miss.Type == "Deleted" && phase == "between-AddMonitor-and-StartMonitor" && inV) || (inV && c02leftScope(rec, b, key, vGen)) {
						// the view itself contains an object that had already left the binding's scope when the
						// informer listed (see C02's ghost finding): no Deleted ever follows, and a later
						// re-creation finds the ghost in the cache (reported as Modified, or not at all)
						cls = "stale/ghost-deleted-between-AddMonitor-list-and-informer-start"
					}
					res.Violate(cls, "binding %s object %s: Synchronization view shows %s, delivered events %v, expected (from the ground truth, as a suffix) %v; first missing: %s (written in phase %q)\n%s", hb, key, c01viewDesc(inV, vGen), got, want, miss, phase, desc())
				}
			}
		}
	}
}

// c01afterView: writes of this phase are issued after the start-up (and with it every Synchronization) has
// settled.
func c01afterView(phase string) bool {
	return strings.HasPrefix(phase, "steady-state") || strings.Contains(phase, "steady state")
}

func c01viewDesc(in bool, gen int) string {
	if in {
		return fmt.Sprintf("generation %d", gen)
	}
	return "the object absent"
}

// c01suffix: want must be a suffix of got. A Deleted event may carry the last live
// state or the (non-matching / deleted) state that ended the object's presence.
func c01suffix(got, want []c01ev, h []vlib.ObjState) bool {
	if len(want) > len(got) {
		return false
	}
	off := len(got) - len(want)
	for i, w := range want {
		g := got[off+i]
		if g.Type != w.Type {
			return false
		}
		if g.Gen == w.Gen {
			continue
		}
		if w.Type == "Deleted" {
			// accept the generation of the following (terminating) state
			ok := false
			for j := range h {
				if h[j].Gen == w.Gen && j+1 < len(h) && h[j+1].Gen == g.Gen {
					ok = true
				}
			}
			if ok {
				continue
			}
		}
		return false
	}
	return true
}

func c01firstMissing(got, want []c01ev, h []vlib.ObjState) c01ev {
	// longest suffix of want that is a suffix of got
	for n := len(want); n > 0; n-- {
		if c01suffix(got, want[len(want)-n:], h) {
			if n == len(want) {
				return c01ev{}
			}
			return want[len(want)-n-1]
		}
	}
	if len(want) > 0 {
		return want[len(want)-1]
	}
	return c01ev{}
}

// c01group: the last Group execution must show, for the binding, the final matching set when the last
// relevant change of the ground truth fired an event for this binding.
func c01group(res *vlib.Result, rec *krecord, kh khook, b *kbind, lastGroup *kexec, recipe string, faults bool) {
	if lastGroup == nil {
		if b.OnSync {
			res.Violate("group/synchronization-missing", "binding %s/%s (group %s) never produced a successful Group execution\n%s", kh.Rel, b.Name, b.Group, rec.describe())
		}
		return
	}
	if faults {
		// watch closes, relists and outages legally coalesce changes (an object created and deleted during
		// an outage is never seen): there may be no event for the last change; the final state is C02's
		return
	}
	// is the very last state change among objects that ever matched b of a listed type?
	vc := rec.VC
	lastGen, lastType := 0, ""
	for key, h := range vc.History {
		parts := strings.SplitN(key, "/", 2)
		for i, st := range h {
			cur := !st.Deleted && vc.Matches(b.Sel, parts[0], parts[1], st)
			prev := i > 0 && !h[i-1].Deleted && vc.Matches(b.Sel, parts[0], parts[1], h[i-1])
			typ := ""
			switch {
			case cur && !prev:
				typ = "Added"
			case cur && prev:
				typ = "Modified"
			case !cur && prev:
				typ = "Deleted"
			}
			if typ != "" && st.Gen > lastGen {
				lastGen, lastType = st.Gen, typ
			}
		}
	}
	if lastType == "" || !b.Listed(lastType) || b.Jq != "" || len(b.Sel.NsLabels) > 0 {
		return
	}
	// find the group's context in the last Group execution (any binding of the group carries the snapshots)
	var snaps map[string]any
	for _, cx := range lastGroup.Contexts {
		if fmt.Sprint(cx["type"]) == "Group" && fmt.Sprint(cx["groupName"]) == b.Group {
			snaps, _ = cx["snapshots"].(map[string]any)
		}
	}
	items, _ := c02items(snaps[b.Name])
	var got []string
	for _, it := range items {
		if it.Key == "" {
			return
		}
		got = append(got, fmt.Sprintf("%s@%d", it.Key, it.Gen))
	}
	sort.Strings(got)
	want := sortedIDs(rec.Final[kh.Rel+"/"+b.Name])
	res.Count("group_final_snapshots_checked", 1)
	if strings.Join(got, ",") != strings.Join(want, ",") {
		if c02onlyGhosts(rec, b, got, want) {
			res.Violate("stale/ghost-deleted-between-AddMonitor-list-and-informer-start", "binding %s/%s (group %s): the last Group execution #%d shows %v while the cluster holds %v: the surplus left the binding's scope between AddMonitor's list and the informer's own list\n%s", kh.Rel, b.Name, b.Group, lastGroup.Idx, got, want, rec.describe())
			return
		}
		res.Violate("group/last-execution-does-not-reflect-last-change/"+recipe, "binding %s/%s (group %s): the last change (%s, generation %d) is of a listed type, but the last Group execution #%d shows %v while the cluster holds %v\n%s", kh.Rel, b.Name, b.Group, lastType, lastGen, lastGroup.Idx, got, want, rec.describe())
	}
}

// ---------------------------------------------------------------- unlock replay vs. live events
//
// Informer level, real goroutines (no bubble: the unlock holds a mutex across a
// blocking channel send, which a virtual-time bubble cannot schedule around):
// one goroutine plays client-go's handler goroutine and delivers the events of
// one informer sequentially; some are buffered while events are locked; another
// goroutine performs the unlock (replay of the buffer) while the first keeps
// delivering; a slow consumer drains the manager-like capacity-1 channel.
// Oracle: every event is delivered exactly once and per object in order.

func TestC01Replay(t *testing.T) {
	e := vlib.GetEnv()
	n := e.Pick(240, 40000)
	vlib.RunCases(t, "C01", "replay-order", n, func(c *vlib.Case) vlib.Result {
		var res vlib.Result
		rng := c.Rng
		kubeeventsmanager.DefaultFactoryStore = kubeeventsmanager.NewFactoryStore()
		vc := vlib.NewVCluster()
		ctx, cancel := context.WithCancel(context.Background())
		defer cancel()
		hc := &config.HookConfig{}
		if err := hc.LoadAndValidate([]byte(cfgJSON(m{"configVersion": "v1", "kubernetes": []any{m{"name": "b", "apiVersion": "v1", "kind": "ConfigMap"}}}))); err != nil {
			res.Inconclusive = err.Error()
			return res
		}
		ch := make(chan kemtypes.KubeEvent, 1) // the manager's channel has capacity 1
		ms := metricstorage.NewMetricStorage(ctx, "p_", true, log.NewNop())
		mon := kubeeventsmanager.NewMonitor(ctx, vc.Client, ms, hc.OnKubernetesEvents[0].Monitor, func(ev kemtypes.KubeEvent) { ch <- ev }, log.NewNop())
		if err := mon.CreateInformers(); err != nil || len(mon.ResourceInformers) != 1 {
			res.Inconclusive = fmt.Sprint("create informers: ", err)
			return res
		}
		ri := mon.ResourceInformers[0]
		nObj := 1 + rng.IntN(2)
		nBuffered := rng.IntN(6)
		nLive := 1 + rng.IntN(5)
		total := nBuffered + nLive
		gen := 0
		exists := map[string]bool{}
		type sent struct {
			Obj string
			Gen int
		}
		var plan []sent
		for i := 0; i < total; i++ {
			gen++
			plan = append(plan, sent{fmt.Sprintf("o%d", rng.IntN(nObj)), gen})
		}
		deliver := func(s sent) {
			u := vlib.BuildCM("default", s.Obj, vlib.ObjState{Gen: s.Gen})
			if exists[s.Obj] {
				ri.OnUpdate(nil, u)
			} else {
				ri.OnAdd(u, false)
				exists[s.Obj] = true
			}
		}
		consumerDelay := time.Duration(rng.IntN(3)) * time.Millisecond
		liveDelay := time.Duration(rng.IntN(2000)) * time.Microsecond
		unlockDelay := time.Duration(rng.IntN(1500)) * time.Microsecond
		var got []sent
		done := make(chan struct{})
		go func() { // consumer
			defer close(done)
			for len(got) < total {
				select {
				case ev := <-ch:
					g, _, _ := unstructuredNestedString(ev.Objects[0].Object.Object, "data", "gen")
					var gi int
					fmt.Sscanf(g, "%d", &gi)
					got = append(got, sent{ev.Objects[0].Object.GetName(), gi})
					if consumerDelay > 0 {
						time.Sleep(consumerDelay)
					}
				case <-time.After(10 * time.Second):
					return
				}
			}
		}()
		// the informer's handler goroutine
		handlerDone := make(chan struct{})
		unlockStart := make(chan struct{})
		go func() {
			defer close(handlerDone)
			for _, s := range plan[:nBuffered] {
				deliver(s)
			}
			close(unlockStart)
			time.Sleep(liveDelay)
			for _, s := range plan[nBuffered:] {
				deliver(s)
				if rng.IntN(2) == 0 {
					time.Sleep(time.Duration(rng.IntN(300)) * time.Microsecond)
				}
			}
		}()
		<-unlockStart
		time.Sleep(unlockDelay)
		mon.EnableKubeEventCb()
		<-handlerDone
		<-done
		desc := fmt.Sprintf("%d objects, %d events buffered before the unlock, %d delivered while/after it (consumer delay %v, live delay %v, unlock delay %v)\nsent      %v\nreceived  %v", nObj, nBuffered, nLive, consumerDelay, liveDelay, unlockDelay, plan, got)
		if len(got) != total {
			res.Violate("replay/lost-or-stuck", "only %d of %d events reached the consumer within 10 s\n%s", len(got), total, desc)
		}
		last := map[string]int{}
		seen := map[int]bool{}
		for _, g := range got {
			if seen[g.Gen] {
				res.Violate("replay/duplicate", "generation %d delivered twice\n%s", g.Gen, desc)
			}
			seen[g.Gen] = true
			if g.Gen < last[g.Obj] {
				res.Violate("replay/order", "object %s: generation %d delivered after %d\n%s", g.Obj, g.Gen, last[g.Obj], desc)
			}
			last[g.Obj] = g.Gen
		}
		res.Count("replay_events_checked", int64(len(got)))
		if nBuffered > 0 {
			res.Key = fmt.Sprintf("replay-o%d-b%d-l%d-%d", nObj, nBuffered, nLive, c.Index%8)
		}
		if c.Index < 2 {
			res.Sample = m{"case": desc}
		}
		return res
	})
}
