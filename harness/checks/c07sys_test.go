package checks

// C07 (b) — the combiner as the running operator uses it (the unexported twin).
//
// A queue worker is parked inside a sentinel task while a generated layout of
// tasks (ticks of per-binding crontabs, object creations) is appended behind it;
// after the release every hook execution's binding contexts are compared with a
// reference simulation (combine + compact, from the statement). In half of the
// cases the first combining handler is additionally parked between its Iterate
// and its Filter while more tasks are appended: they must survive. In a quarter
// of the cases hook A's first execution fails: the retry must get the same
// (combined) contexts - the merged tasks are gone from the queue by then.

import (
	"fmt"
	"strings"
	"testing"
	"testing/synctest"
	"time"

	"verif/harness/vhk"
	"verif/harness/vlib"
)

type c7sb struct {
	Hook    string
	Name    string
	Group   string
	Crontab string
	Kube    bool
	Allow   bool // allowFailure: tasks of bindings with different values are never merged (stop rule of the operator)
}

func TestC07Sys(t *testing.T) {
	e := vlib.GetEnv()
	n := e.Pick(48, 6000)
	vlib.RunCases(t, "C07", "sys", n, func(c *vlib.Case) vlib.Result {
		var res vlib.Result
		rng := c.Rng
		hs := vlib.NewHookSet(c.Dir, "hooks")
		Q := "qc"
		failA := c.Index%4 == 2
		var binds []c7sb
		cronN := 0
		for _, hook := range []string{"A", "B"} {
			cfg := m{"configVersion": "v1"}
			var sch []any
			nb := 2 + rng.IntN(3)
			for i := 0; i < nb; i++ {
				cronN++
				b := c7sb{Hook: hook, Name: fmt.Sprintf("%s%d", strings.ToLower(hook), i), Group: []string{"", "", "g1", "g1", "g2"}[rng.IntN(5)], Crontab: fmt.Sprintf("%d 2 1 1 *", cronN)}
				d := m{"name": b.Name, "crontab": b.Crontab, "queue": Q}
				if b.Group != "" {
					d["group"] = b.Group
				}
				if !failA && rng.IntN(3) == 0 {
					b.Allow = true
					d["allowFailure"] = true
				}
				sch = append(sch, d)
				binds = append(binds, b)
			}
			cfg["schedule"] = sch
			if hook == "A" {
				kb := c7sb{Hook: hook, Name: "ak", Kube: true, Group: []string{"", "g1"}[rng.IntN(2)]}
				d := m{"name": "ak", "apiVersion": "v1", "kind": "ConfigMap", "queue": Q, "executeHookOnSynchronization": false}
				if kb.Group != "" {
					d["group"] = kb.Group
				}
				cfg["kubernetes"] = []any{d}
				binds = append(binds, kb)
			}
			hs.AddHook(hook, 0o755, cfgJSON(cfg))
		}
		hs.AddHook("S-sentinel", 0o755, cfgJSON(m{"configVersion": "v1", "schedule": []any{m{"name": "sent", "crontab": "59 2 1 1 *", "queue": Q}}}))
		// layout
		type ltask struct {
			B   c7sb
			Obj string
		}
		nT := 1 + rng.IntN(10)
		var layout []ltask
		for i := 0; i < nT; i++ {
			// bias towards hook A so that runs of the same hook occur
			var b c7sb
			for {
				b = binds[rng.IntN(len(binds))]
				if b.Hook == "A" || rng.IntN(3) == 0 {
					break
				}
			}
			layout = append(layout, ltask{B: b})
		}
		concurrent := c.Index%2 == 1
		// every fourth case: hook A's first execution fails; the retry must receive the same (combined) contexts
		if failA {
			hs.Plan("A", 0, vhk.Directive{Exit: 1})
		}
		var late []ltask
		if concurrent {
			for i := 0; i < 1+rng.IntN(3); i++ {
				b := binds[rng.IntN(len(binds))]
				late = append(late, ltask{B: b})
			}
		}
		armedCombine := false
		inBubble(c, func(t *testing.T) {
			sys, err := vlib.NewSys(hs, nil)
			if err != nil {
				res.Inconclusive = "assemble: " + err.Error()
				sys.StopNow()
				return
			}
			defer sys.Stop()
			sys.Start()
			if !sys.Settle(100) {
				res.Inconclusive = "startup did not settle"
				return
			}
			gate := vlib.NewGate()
			defer gate.Release()
			sys.Pts.On("q.handler.enter", func(ev vlib.PointEvent) {
				if ev.Args[0].(string) == Q {
					gate.Park()
				}
			})
			cgate := vlib.NewGate()
			defer cgate.Release()
			if concurrent {
				sys.Pts.On("combine.betweenIterateAndFilter", func(ev vlib.PointEvent) {
					if ev.Args[0].(string) == Q && ev.Args[2].(int) > 0 {
						cgate.Park()
					}
				})
			}
			tick(sys, "59 2 1 1 *")
			sys.Advance(600 * time.Millisecond)
			if !gate.Hit() {
				res.Inconclusive = "sentinel rendezvous did not arm"
				return
			}
			objN := 0
			inject := func(l []ltask) {
				for i := range l {
					if l[i].B.Kube {
						objN++
						l[i].Obj = fmt.Sprintf("obj%d", objN)
						_ = createCM(sys, "default", l[i].Obj, objN)
					} else {
						tick(sys, l[i].B.Crontab)
					}
					synctest.Wait() // keep the arrival order = layout order
				}
			}
			inject(layout)
			gate.Release()
			synctest.Wait()
			if concurrent && cgate.Hit() {
				armedCombine = true
				inject(late)
				cgate.Release()
			}
			if !sys.Settle(200) {
				res.Inconclusive = "did not settle"
			}
		})
		if res.Inconclusive != "" {
			return res
		}
		// reference simulation
		type rtask struct {
			Hook  string
			Allow bool
			Ctx   []c7ctx
		}
		mk := func(l ltask) rtask {
			lbl := l.B.Name + "/Schedule"
			if l.B.Kube {
				lbl = l.B.Name + "/Event/Added"
			}
			if l.B.Group != "" {
				lbl = l.B.Name + "/Group/" + l.B.Group
			}
			return rtask{Hook: l.B.Hook, Allow: l.B.Allow, Ctx: []c7ctx{{Label: lbl, Group: l.B.Group}}}
		}
		var queue []rtask
		for _, l := range layout {
			queue = append(queue, mk(l))
		}
		var want []string
		lateAdded := !(concurrent && armedCombine)
		for len(queue) > 0 {
			head := queue[0]
			k := 1
			for k < len(queue) && queue[k].Hook == head.Hook && queue[k].Allow == head.Allow {
				k++
			}
			var all []c7ctx
			for _, t := range queue[:k] {
				all = append(all, t.Ctx...)
			}
			queue = queue[k:]
			if !lateAdded && k > 1 {
				// the first handler that really combined was parked; the late tasks arrived then
				for _, l := range late {
					queue = append(queue, mk(l))
				}
				lateAdded = true
			}
			var kept []string
			for i, cx := range all {
				if cx.Group != "" && i+1 < len(all) && all[i+1].Group == cx.Group {
					continue
				}
				kept = append(kept, cx.Label)
			}
			want = append(want, head.Hook+":"+strings.Join(kept, ","))
		}
		if failA {
			for i, w := range want {
				if strings.HasPrefix(w, "A:") {
					want = append(want[:i+1], append([]string{w}, want[i+1:]...)...)
					break
				}
			}
		}
		var got []string
		for _, ex := range hs.Executions() {
			if ex.Hook == "S-sentinel" {
				continue
			}
			got = append(got, ex.Hook+":"+vlib.CtxSummary(ex.Contexts))
		}
		var ld []string
		for _, l := range layout {
			ld = append(ld, fmt.Sprintf("%s:%s(allowFailure=%v)", mk(l).Hook, mk(l).Ctx[0].Label, l.B.Allow))
		}
		var lateD []string
		for _, l := range late {
			lateD = append(lateD, mk(l).Hook+":"+mk(l).Ctx[0].Label)
		}
		desc := fmt.Sprintf("queue layout behind the sentinel: %v\nappended while the combiner was parked: %v (rendezvous fired: %v)\nexecutions observed:\n  %s\nreference (combine + compact):\n  %s", ld, lateD, armedCombine, strings.Join(got, "\n  "), strings.Join(want, "\n  "))
		if strings.Join(got, "\n") != strings.Join(want, "\n") {
			cls := "sequential"
			if armedCombine {
				cls = "concurrent-append"
			}
			if failA {
				cls = "failed-run-retried"
			}
			// classify: lost context vs other
			gotAll, wantAll := strings.Join(got, ","), strings.Join(want, ",")
			kind := "different-grouping"
			if strings.Count(gotAll, "/") < strings.Count(wantAll, "/") {
				kind = "context-lost"
			} else if strings.Count(gotAll, "/") > strings.Count(wantAll, "/") {
				kind = "context-duplicated-or-not-compacted"
			}
			res.Violate("sys/"+kind+"/"+cls, "%s", desc)
		}
		if concurrent && armedCombine {
			res.Count("combine_rendezvous_fired", 1)
		}
		merges := 0
		for _, w := range want {
			if strings.Contains(w, ",") {
				merges++
			}
		}
		res.Count("executions_compared", int64(len(want)))
		if merges > 0 || len(want) > 1 {
			res.Key = fmt.Sprintf("t%d-m%d-late%d-%v-retry%v", len(layout), merges, len(late), armedCombine, failA)
		}
		if c.Index < 3 {
			res.Sample = m{"case": desc}
		}
		res.Replay = m{"case": desc}
		return res
	})
}
