package checks

// C09, renderer part — ConvertBindingContextList(...).Json() on generated
// BindingContext values of every kind, both config versions, with the field
// rules of the documented contract (complements the process-boundary validation
// of c09_test.go, which cannot produce admission/conversion/v0 contexts).

import (
	"encoding/json"
	"fmt"
	"strings"
	"testing"

	admissionv1 "k8s.io/api/admission/v1"
	apixv1 "k8s.io/apiextensions-apiserver/pkg/apis/apiextensions/v1"
	"k8s.io/apimachinery/pkg/apis/meta/v1/unstructured"
	"k8s.io/apimachinery/pkg/runtime"

	bctx "github.com/flant/shell-operator/pkg/hook/binding_context"
	htypes "github.com/flant/shell-operator/pkg/hook/types"
	kemtypes "github.com/flant/shell-operator/pkg/kube_events_manager/types"

	"verif/harness/vlib"
)

func TestC09Render(t *testing.T) {
	e := vlib.GetEnv()
	n := e.Pick(120, 40000)
	kinds := []string{"onStartup", "Schedule", "Synchronization", "Added", "Modified", "Deleted", "Group", "Validating", "Mutating", "Conversion"}
	vlib.RunCases(t, "C09", "render", n, func(c *vlib.Case) vlib.Result {
		var res vlib.Result
		rng := c.Rng
		version := []string{"v1", "v1", "v1", "v0"}[rng.IntN(4)]
		nCtx := 1 + rng.IntN(5)
		type exp struct {
			Kind      string
			Binding   string
			Snapshots bool
			Jq        string
			KeepFull  bool
			Group     string
			NObj      int
		}
		var in []bctx.BindingContext
		var exps []exp
		mkObj := func(i int, jq string, keep bool) kemtypes.ObjectAndFilterResult {
			o := kemtypes.ObjectAndFilterResult{Object: &unstructured.Unstructured{Object: map[string]any{"apiVersion": "v1", "kind": "ConfigMap", "metadata": map[string]any{"name": fmt.Sprintf("o%d", i), "namespace": "ns"}, "data": map[string]any{"gen": fmt.Sprint(i)}}}}
			o.Metadata.JqFilter = jq
			o.Metadata.ResourceId = fmt.Sprintf("ns/ConfigMap/o%d", i)
			if jq != "" {
				o.FilterResult = fmt.Sprintf(`{"gen":"%d"}`, i)
			}
			if !keep {
				o.RemoveFullObject()
			}
			return o
		}
		for i := 0; i < nCtx; i++ {
			k := kinds[rng.IntN(len(kinds))]
			if version == "v0" && (k == "Group" || k == "Validating" || k == "Mutating" || k == "Conversion" || k == "Synchronization") {
				k = []string{"onStartup", "Schedule", "Added", "Deleted"}[rng.IntN(4)]
			}
			x := exp{Kind: k, Binding: fmt.Sprintf("b%d", i), KeepFull: rng.IntN(3) != 0}
			if rng.IntN(2) == 0 {
				x.Jq = ".data"
			}
			if (!x.KeepFull && x.Jq == "") || version == "v0" {
				x.KeepFull = true // v0 bindings always keep full objects (their context is rendered from the object)
			}
			bc := bctx.BindingContext{Binding: x.Binding}
			snap := rng.IntN(2) == 0
			switch k {
			case "onStartup":
				bc.Binding = "onStartup"
				x.Binding = "onStartup"
				bc.Metadata.BindingType = htypes.OnStartup
				snap = false
			case "Schedule":
				bc.Metadata.BindingType = htypes.Schedule
			case "Synchronization":
				bc.Metadata.BindingType = htypes.OnKubernetesEvent
				bc.Type = kemtypes.TypeSynchronization
				x.NObj = rng.IntN(3)
				for j := 0; j < x.NObj; j++ {
					bc.Objects = append(bc.Objects, mkObj(j, x.Jq, x.KeepFull))
				}
				bc.Metadata.JqFilter = x.Jq
			case "Added", "Modified", "Deleted":
				bc.Metadata.BindingType = htypes.OnKubernetesEvent
				bc.Type = kemtypes.TypeEvent
				bc.WatchEvent = kemtypes.WatchEventType(k)
				bc.Objects = []kemtypes.ObjectAndFilterResult{mkObj(i, x.Jq, x.KeepFull)}
				bc.Metadata.JqFilter = x.Jq
			case "Group":
				bc.Metadata.BindingType = []htypes.BindingType{htypes.OnKubernetesEvent, htypes.Schedule}[rng.IntN(2)]
				if bc.Metadata.BindingType == htypes.OnKubernetesEvent {
					bc.Type = []kemtypes.KubeEventType{kemtypes.TypeSynchronization, kemtypes.TypeEvent}[rng.IntN(2)]
					bc.WatchEvent = kemtypes.WatchEventAdded
					bc.Objects = []kemtypes.ObjectAndFilterResult{mkObj(i, "", true)}
				}
				x.Group = "grp"
				bc.Metadata.Group = "grp"
				snap = true
			case "Validating", "Mutating":
				bc.Metadata.BindingType = map[string]htypes.BindingType{"Validating": htypes.KubernetesValidating, "Mutating": htypes.KubernetesMutating}[k]
				bc.AdmissionReview = &admissionv1.AdmissionReview{Request: &admissionv1.AdmissionRequest{UID: "uid-1", Name: "p"}}
				if rng.IntN(3) == 0 {
					// `group` on an admission binding only selects snapshots: the context stays a Validating/Mutating one
					bc.Metadata.Group = "grp"
					snap = true
				}
			case "Conversion":
				bc.Metadata.BindingType = htypes.KubernetesConversion
				bc.FromVersion, bc.ToVersion = "v1", "example.com/v2"
				if rng.IntN(3) == 0 {
					bc.Metadata.Group = "grp" // as above: only selects snapshots
					snap = true
				}
				bc.ConversionReview = &apixv1.ConversionReview{Request: &apixv1.ConversionRequest{UID: "uid-2", DesiredAPIVersion: "example.com/v2", Objects: []runtime.RawExtension{{Raw: []byte(`{"apiVersion":"v1","kind":"X"}`)}}}}
			}
			if version == "v0" {
				snap = false
			}
			if snap {
				x.Snapshots = true
				bc.Metadata.IncludeSnapshots = []string{"other"}
				bc.Snapshots = map[string][]kemtypes.ObjectAndFilterResult{"other": {mkObj(9, ".data", true)}}
				if rng.IntN(3) == 0 {
					bc.Snapshots = map[string][]kemtypes.ObjectAndFilterResult{"other": {}}
				}
			}
			in = append(in, bc)
			exps = append(exps, x)
		}
		data, err := bctx.ConvertBindingContextList(version, in).Json()
		if err != nil {
			res.Violate("render/json-error", "%v", err)
			return res
		}
		var out []map[string]any
		if err := json.Unmarshal(data, &out); err != nil || len(out) != len(in) {
			res.Violate("render/not-an-array-of-the-same-length", "err=%v len=%d want %d\n%s", err, len(out), len(in), data)
			return res
		}
		for i, cx := range out {
			x := exps[i]
			fail := func(sig, f string, a ...any) {
				res.Violate("render/"+sig+"/"+version+"/"+x.Kind, "context %d (%+v): %s\nrendered: %s", i, x, fmt.Sprintf(f, a...), vlib.JSON(cx))
			}
			res.Count("contexts_rendered", 1)
			if b, ok := cx["binding"].(string); !ok || b != x.Binding {
				fail("binding", "binding %v", cx["binding"])
			}
			only := func(keys ...string) {
				ok := map[string]bool{"binding": true}
				for _, k := range keys {
					ok[k] = true
				}
				for k := range cx {
					if !ok[k] {
						fail("unexpected-field-"+k, "field %q is not documented for this context", k)
					}
				}
				for _, k := range keys {
					if strings.HasSuffix(k, "?") {
						continue
					}
					if _, has := cx[k]; !has {
						fail("missing-field-"+k, "field %q is missing", k)
					}
				}
			}
			if version == "v0" {
				// the shipped documentation no longer describes v0 contexts: only the shape is required
				if ev, ok := cx["resourceEvent"]; ok {
					want := map[string]string{"Added": "add", "Modified": "update", "Deleted": "delete"}[x.Kind]
					if x.Kind == "Added" || x.Kind == "Modified" || x.Kind == "Deleted" {
						if ev != want {
							fail("v0-resource-event", "resourceEvent %v, expected %s", ev, want)
						}
					}
				}
				continue
			}
			_, hasSnap := cx["snapshots"]
			if hasSnap != x.Snapshots {
				fail("snapshots-presence", "snapshots present=%v, includes snapshots=%v", hasSnap, x.Snapshots)
			}
			opt := []string{}
			if x.Snapshots {
				opt = append(opt, "snapshots")
			}
			switch x.Kind {
			case "onStartup":
				only()
			case "Schedule":
				only(append(opt, "type")...)
				if cx["type"] != "Schedule" {
					fail("type", "type %v", cx["type"])
				}
			case "Synchronization":
				only(append(opt, "type", "objects")...)
				objs, isArr := cx["objects"].([]any)
				if !isArr || len(objs) != x.NObj {
					fail("objects", "objects %v, expected an array of %d", cx["objects"], x.NObj)
				}
				for _, o := range objs {
					c09renderItem(fail, o, x.Jq, x.KeepFull)
				}
			case "Added", "Modified", "Deleted":
				keys := append(opt, "type", "watchEvent")
				if x.KeepFull {
					keys = append(keys, "object")
				}
				if x.Jq != "" {
					keys = append(keys, "filterResult")
				}
				only(keys...)
				if cx["type"] != "Event" || cx["watchEvent"] != x.Kind {
					fail("event-fields", "type %v watchEvent %v", cx["type"], cx["watchEvent"])
				}
				c09renderItem(fail, map[string]any(cx), x.Jq, x.KeepFull)
			case "Group":
				only("type", "groupName", "snapshots")
				if cx["type"] != "Group" || cx["groupName"] != "grp" {
					fail("group-fields", "type %v groupName %v", cx["type"], cx["groupName"])
				}
			case "Validating", "Mutating":
				only(append(opt, "type", "review")...)
				rv, _ := cx["review"].(map[string]any)
				rq, _ := rv["request"].(map[string]any)
				if cx["type"] != x.Kind || rq["uid"] != "uid-1" {
					fail("admission-fields", "type %v review.request.uid %v", cx["type"], rq["uid"])
				}
			case "Conversion":
				only(append(opt, "type", "fromVersion", "toVersion", "review")...)
				rv, _ := cx["review"].(map[string]any)
				rq, _ := rv["request"].(map[string]any)
				if cx["type"] != "Conversion" || cx["fromVersion"] != "v1" || cx["toVersion"] != "example.com/v2" || rq["uid"] != "uid-2" {
					fail("conversion-fields", "type %v from %v to %v uid %v", cx["type"], cx["fromVersion"], cx["toVersion"], rq["uid"])
				}
			}
		}
		var ks []string
		for _, x := range exps {
			ks = append(ks, x.Kind)
		}
		res.Key = version + ":" + strings.Join(ks, ",")
		if c.Index < 2 {
			var anyOut any
			_ = json.Unmarshal(data, &anyOut)
			res.Sample = m{"version": version, "rendered": anyOut}
		}
		return res
	})
}

func c09renderItem(fail func(sig, f string, a ...any), item any, jq string, keep bool) {
	mm, _ := item.(map[string]any)
	_, hasObj := mm["object"]
	fr, hasFR := mm["filterResult"]
	if hasObj != keep {
		fail("object-presence", "object present=%v, keepFullObjectsInMemory=%v", hasObj, keep)
	}
	if hasFR != (jq != "") {
		fail("filterresult-presence", "filterResult present=%v, jqFilter set=%v", hasFR, jq != "")
	}
	if jq != "" {
		frm, _ := fr.(map[string]any)
		if _, ok := frm["gen"]; !ok {
			fail("filterresult-value", "filterResult %v is not the stored jq result", fr)
		}
	}
}
