package checks

// C08 — hooks are triggered only by meaningful changes (event type and jqFilter).
//
// Informer level: the real KubeEventsManager / monitor / informer run on the
// vcluster (fake cluster with API-server selector semantics) in virtual time; a
// scripted history of object states is applied, interleaved with re-delivery
// injectors (watch close, 410 relist, a second monitor sharing the informer).
// Observed: the KubeEvents emitted on the manager's channel and Snapshot().
// Oracle: reference trigger rule; the projection is computed independently with
// gojq run directly by the harness and cross-checked with the jq 1.6 binary for
// the changed/unchanged verdict between consecutive states.

import (
	"context"
	"encoding/json"
	"fmt"
	"os/exec"
	"sort"
	"strings"
	"testing"
	"testing/synctest"
	"time"

	"github.com/deckhouse/deckhouse/pkg/log"
	"github.com/itchyny/gojq"

	"github.com/flant/shell-operator/pkg/hook/config"
	kubeeventsmanager "github.com/flant/shell-operator/pkg/kube_events_manager"
	kemtypes "github.com/flant/shell-operator/pkg/kube_events_manager/types"
	metricstorage "github.com/flant/shell-operator/pkg/metric_storage"

	"verif/harness/vlib"
)

// c08filters: expression -> result kind it usually yields on the generated objects
var c08filters = []struct{ Expr, Kind string }{
	{"", "whole-object"},
	{".spec", "object"},
	{"{a: .spec.a, l: .metadata.labels}", "object"},
	{".spec.nested", "object"},
	{".metadata.labels", "object"},
	{"[.spec.a, .spec.b]", "array"},
	{".spec.items", "array"},
	{".spec.items | length", "scalar"},
	{".spec.a", "scalar"},
	{".spec.name", "scalar"},
	{".spec.a // \"none\"", "scalar"},
	{".spec | keys", "array"},
	{".spec | has(\"b\")", "scalar"},
	{"\"a=\\(.spec.a)\"", "scalar"},
	{".spec.missing", "null"},
	{".spec.a, .spec.b", "multi"},
	{"empty", "none"},
	{"select(.spec.a > 1) | .spec", "object-or-none"},
	{".spec.items[0]", "scalar"},
	{"{n: (.spec.items | length)}", "object"},
	// several outputs with a null before the one that changes; "no output" versus a null output
	{".spec.missing, .spec.b", "multi"},
	{".spec.missing, .spec.a, .spec.name", "multi"},
	{".spec.a | select(. != 0)", "null-or-none-or-scalar"},
	{".spec.b, null, .metadata.labels.l", "multi"},
}

func c08project(expr string, obj map[string]any) (string, error) {
	if expr == "" {
		b, _ := json.Marshal(obj)
		return string(b), nil
	}
	q, err := gojq.Parse(expr)
	if err != nil {
		return "", err
	}
	var norm any
	b, _ := json.Marshal(obj)
	_ = json.Unmarshal(b, &norm)
	it := q.Run(norm)
	var outs []string
	for {
		v, ok := it.Next()
		if !ok {
			break
		}
		if e, isErr := v.(error); isErr {
			return "", e
		}
		jb, err := gojq.Marshal(v)
		if err != nil {
			return "", err
		}
		outs = append(outs, string(jb))
	}
	return strings.Join(outs, "\n"), nil
}

func c08projectJqBinary(expr string, obj map[string]any) (string, error) {
	if expr == "" {
		expr = "."
	}
	b, _ := json.Marshal(obj)
	cmd := exec.Command("jq", "-c", "-S", expr)
	cmd.Stdin = strings.NewReader(string(b))
	out, err := cmd.Output()
	return strings.TrimSpace(string(out)), err
}

type c08step struct {
	Op    string // put touch delete close-watches expire-watches second-monitor outage
	Key   string
	Spec  map[string]any
	Lbl   map[string]string
	Inner []c08step // outage: what happens to Key while the watches are down
}

func TestC08(t *testing.T) {
	e := vlib.GetEnv()
	n := e.Pick(200, 40000)
	subsets := [][]string{{"Added", "Modified", "Deleted"}, {"Added"}, {"Modified"}, {"Deleted"}, {"Added", "Modified"}, {"Added", "Deleted"}, {"Modified", "Deleted"}, {}}
	vlib.RunCases(t, "C08", "informer", n, func(c *vlib.Case) vlib.Result {
		var res vlib.Result
		rng := c.Rng
		f := c08filters[c.Index%len(c08filters)]
		evs := subsets[(c.Index/len(c08filters))%len(subsets)]
		keepFull := rng.IntN(4) != 0
		// history
		specs := func() map[string]any {
			s := map[string]any{"a": float64(rng.IntN(4)), "b": []string{"x", "y", "z"}[rng.IntN(3)], "name": fmt.Sprintf("n%d", rng.IntN(3)),
				"items": []any{float64(rng.IntN(3)), "k"}[:1+rng.IntN(2)], "nested": map[string]any{"deep": map[string]any{"v": float64(rng.IntN(3))}}}
			if rng.IntN(3) == 0 {
				s["ratio"] = 0.5 * float64(rng.IntN(4))
			}
			if rng.IntN(4) == 0 {
				delete(s, "a")
			}
			return s
		}
		keys := []string{"default/o1", "default/o2", "other/o3"}[:1+rng.IntN(3)]
		var steps []c08step
		last := map[string]c08step{}
		nSteps := 4 + rng.IntN(14)
		for i := 0; i < nSteps; i++ {
			k := keys[rng.IntN(len(keys))]
			switch r := rng.IntN(20); {
			case r < 9:
				st := c08step{Op: "put", Key: k, Spec: specs(), Lbl: map[string]string{"l": fmt.Sprint(rng.IntN(2))}}
				if p, ok := last[k]; ok && rng.IntN(3) == 0 {
					// change only outside the usual projections
					st.Spec = p.Spec
					st.Lbl = map[string]string{"l": p.Lbl["l"], "noise": fmt.Sprint(i)}
				} else if ok && rng.IntN(4) == 0 {
					st.Spec, st.Lbl = p.Spec, p.Lbl // exact repeat of the content under a new generation
				}
				steps = append(steps, st)
				last[k] = st
			case r < 12:
				steps = append(steps, c08step{Op: "touch", Key: k})
			case r < 15:
				steps = append(steps, c08step{Op: "delete", Key: k})
				delete(last, k)
			case r < 16:
				// a watch outage that ends with 410 Gone: the informer learns what happened to one object only
				// from its relist (deletions arrive as DeletedFinalStateUnknown tombstones)
				st := c08step{Op: "outage", Key: k}
				for j := 0; j < 1+rng.IntN(2); j++ {
					if rng.IntN(2) == 0 {
						st.Inner = append(st.Inner, c08step{Op: "delete", Key: k})
					} else {
						st.Inner = append(st.Inner, c08step{Op: "put", Key: k, Spec: specs(), Lbl: map[string]string{"l": fmt.Sprint(rng.IntN(2))}})
					}
				}
				steps = append(steps, st)
				delete(last, k)
			case r < 17:
				steps = append(steps, c08step{Op: "close-watches"})
			case r < 19:
				steps = append(steps, c08step{Op: "expire-watches"})
			default:
				steps = append(steps, c08step{Op: "second-monitor"})
			}
		}
		bind := m{"name": "b", "apiVersion": "v1", "kind": "ConfigMap"}
		if f.Expr != "" {
			bind["jqFilter"] = f.Expr
		}
		if len(evs) != 3 {
			bind["executeHookOnEvent"] = strs(evs)
		}
		if !keepFull {
			bind["keepFullObjectsInMemory"] = false
		}
		listed := map[string]bool{}
		for _, x := range evs {
			listed[x] = true
		}
		var trace []string
		type emitted struct {
			Type string
			Key  string
			Gen  string
		}
		var got []emitted
		var want []emitted
		inconclusive := ""
		inBubble(c, func(t *testing.T) {
			kubeeventsmanager.DefaultFactoryStore = kubeeventsmanager.NewFactoryStore()
			ctx, cancel := context.WithCancel(context.Background())
			vc := vlib.NewVCluster()
			vc.EnsureNamespace("default", nil)
			vc.EnsureNamespace("other", nil)
			mgr := kubeeventsmanager.NewKubeEventsManager(ctx, vc.Client, log.NewNop())
			mgr.WithMetricStorage(metricstorage.NewMetricStorage(ctx, "p_", true, log.NewNop()))
			hc := &config.HookConfig{}
			if err := hc.LoadAndValidate([]byte(cfgJSON(m{"configVersion": "v1", "kubernetes": []any{bind, bind}}))); err != nil {
				inconclusive = "config: " + err.Error()
				cancel()
				return
			}
			mon := hc.OnKubernetesEvents[0].Monitor
			mon2 := hc.OnKubernetesEvents[1].Monitor
			// consumer of the manager's channel
			done := make(chan struct{})
			go func() {
				for {
					select {
					case ev := <-mgr.Ch():
						if ev.MonitorId != mon.Metadata.MonitorId {
							continue // the second monitor only exists to share the informer
						}
						g := ""
						key := ""
						if len(ev.Objects) > 0 {
							key = ev.Objects[0].Metadata.ResourceId
							if ev.Objects[0].Object != nil {
								g, _, _ = unstructuredNestedString(ev.Objects[0].Object.Object, "data", "gen")
							}
						}
						for _, w := range ev.WatchEvents {
							got = append(got, emitted{string(w), key, g})
						}
					case <-done:
						return
					}
				}
			}()
			settle := func() {
				for i := 0; i < 3; i++ {
					synctest.Wait()
					time.Sleep(1500 * time.Millisecond)
				}
				synctest.Wait()
			}
			known := map[string]string{} // key -> last projection the informer must know
			// doPut writes a state and, when the monitor can see it as a change (observe), adds the event the
			// trigger rule demands
			doPut := func(si int, st c08step, observe bool) {
				parts := strings.SplitN(st.Key, "/", 2)
				_, existed := vc.Current(st.Key)
				s := vc.Put(parts[0], parts[1], st.Lbl, map[string]any{"spec": st.Spec})
				obj := vlib.BuildCM(parts[0], parts[1], s).Object
				p1, err1 := c08project(f.Expr, obj)
				if err1 != nil {
					inconclusive = fmt.Sprintf("reference jq failed on step %d: %v", si, err1)
				}
				typ := "Modified"
				if !existed {
					typ = "Added"
				}
				prev, had := known[st.Key]
				changed := !had || prev != p1
				// cross-check the changed/unchanged verdict with the jq binary
				if had && f.Expr != "" {
					pb, errb := c08projectJqBinary(f.Expr, obj)
					prevObjB := known[st.Key+"#bin"]
					if errb == nil && (pb != prevObjB) != changed {
						inconclusive = fmt.Sprintf("gojq and jq 1.6 disagree on whether step %d changes the projection (%q vs %q)", si, p1, pb)
					}
					known[st.Key+"#bin"] = pb
				} else if f.Expr != "" {
					pb, _ := c08projectJqBinary(f.Expr, obj)
					known[st.Key+"#bin"] = pb
				}
				known[st.Key] = p1
				if observe && changed && listed[typ] {
					want = append(want, emitted{typ, "", fmt.Sprint(s.Gen)})
				}
				trace = append(trace, fmt.Sprintf("%d put %s gen=%d spec=%s labels=%v -> projection %s (%s, changed=%v)", si, st.Key, s.Gen, vlib.JSON(st.Spec), st.Lbl, p1, typ, changed))
			}
			// every third case: objects exist before the monitor is added, and one of them is written again
			// between AddMonitor (which lists them) and StartMonitor (the informer lists again and reports every
			// object as Added): that write is a modification of a known object
			preStart := c.Index%3 == 0
			var preKeys []string
			if preStart {
				for i := 0; i < 1+rng.IntN(2); i++ {
					k := keys[rng.IntN(len(keys))]
					doPut(-2, c08step{Op: "put", Key: k, Spec: specs(), Lbl: map[string]string{"l": fmt.Sprint(rng.IntN(2))}}, false)
					preKeys = append(preKeys, k)
				}
				settle()
			}
			if err := mgr.AddMonitor(mon); err != nil {
				inconclusive = "AddMonitor: " + err.Error()
				cancel()
				close(done)
				return
			}
			if preStart {
				k := preKeys[rng.IntN(len(preKeys))]
				st := c08step{Op: "put", Key: k, Spec: specs(), Lbl: map[string]string{"l": fmt.Sprint(rng.IntN(2))}}
				if rng.IntN(3) == 0 {
					st.Lbl["noise"] = "between" // usually outside the projection
				}
				doPut(-1, st, true)
				settle()
			}
			mgr.StartMonitor(mon.Metadata.MonitorId)
			mgr.GetMonitor(mon.Metadata.MonitorId).EnableKubeEventCb()
			settle()
			second := false
			for si, st := range steps {
				switch st.Op {
				case "put":
					doPut(si, st, true)
				case "touch":
					parts := strings.SplitN(st.Key, "/", 2)
					ok := vc.Touch(parts[0], parts[1])
					trace = append(trace, fmt.Sprintf("%d touch %s (rewritten unchanged: %v)", si, st.Key, ok))
				case "delete":
					parts := strings.SplitN(st.Key, "/", 2)
					cur, ok := vc.Current(st.Key)
					if ok {
						vc.Delete(parts[0], parts[1])
						delete(known, st.Key)
						delete(known, st.Key+"#bin")
						if listed["Deleted"] {
							want = append(want, emitted{"Deleted", "", fmt.Sprint(cur.Gen)})
						}
					}
					trace = append(trace, fmt.Sprintf("%d delete %s (existed: %v)", si, st.Key, ok))
				case "outage":
					parts := strings.SplitN(st.Key, "/", 2)
					before, existed := vc.Current(st.Key)
					vc.StallWatches(true)
					for _, in := range st.Inner {
						if in.Op == "delete" {
							vc.Delete(parts[0], parts[1])
						} else {
							vc.Put(parts[0], parts[1], in.Lbl, map[string]any{"spec": in.Spec})
						}
						settle()
					}
					vc.StallWatches(false)
					nw := vc.ExpireWatches()
					for i := 0; i < 100 && vc.OpenWatches() < nw; i++ {
						time.Sleep(time.Second)
						synctest.Wait()
					}
					if vc.OpenWatches() < nw {
						inconclusive = "watches were not re-established within 100 virtual seconds"
					}
					after, exists := vc.Current(st.Key)
					what := "unchanged"
					switch {
					case existed && !exists:
						what = "deleted"
						delete(known, st.Key)
						delete(known, st.Key+"#bin")
						if listed["Deleted"] {
							want = append(want, emitted{"Deleted", "", fmt.Sprint(before.Gen)})
						}
					case exists && (!existed || after.Gen != before.Gen):
						obj := vlib.BuildCM(parts[0], parts[1], after).Object
						p1, err1 := c08project(f.Expr, obj)
						if err1 != nil {
							inconclusive = fmt.Sprintf("reference jq failed on step %d: %v", si, err1)
						}
						typ := "Modified"
						if !existed {
							typ = "Added"
						}
						prev, had := known[st.Key]
						changed := !had || prev != p1
						known[st.Key] = p1
						if f.Expr != "" {
							pb, _ := c08projectJqBinary(f.Expr, obj)
							known[st.Key+"#bin"] = pb
						}
						if changed && listed[typ] {
							want = append(want, emitted{typ, "", fmt.Sprint(after.Gen)})
						}
						what = fmt.Sprintf("%s gen=%d projection %s (changed=%v)", typ, after.Gen, p1, changed)
					}
					trace = append(trace, fmt.Sprintf("%d outage: watches stalled, %d change(s) of %s (existed=%v gen=%d), then 410 Gone -> relist sees: %s", si, len(st.Inner), st.Key, existed, before.Gen, what))
				case "close-watches", "expire-watches":
					var nw int
					if st.Op == "close-watches" {
						nw = vc.CloseWatches()
					} else {
						nw = vc.ExpireWatches()
					}
					// the fake has no resource-version replay: wait (virtual time) until the reflectors
					// have re-established their watches before the next mutation is issued
					for i := 0; i < 100 && vc.OpenWatches() < nw; i++ {
						time.Sleep(time.Second)
						synctest.Wait()
					}
					trace = append(trace, fmt.Sprintf("%d %s: %d watches, re-established: %d", si, st.Op, nw, vc.OpenWatches()))
					if vc.OpenWatches() < nw {
						inconclusive = "watches were not re-established within 100 virtual seconds"
					}
				case "second-monitor":
					if !second {
						second = true
						if err := mgr.AddMonitor(mon2); err == nil {
							mgr.StartMonitor(mon2.Metadata.MonitorId)
							mgr.GetMonitor(mon2.Metadata.MonitorId).EnableKubeEventCb()
						}
						trace = append(trace, fmt.Sprintf("%d second monitor registered on the shared informer", si))
					}
				}
				settle()
			}
			// snapshot must show the final state of everything (suppressed changes update the cache too)
			snap := mgr.GetMonitor(mon.Metadata.MonitorId).Snapshot()
			gotSnap := map[string]string{}
			for _, o := range snap {
				g := "?"
				if o.Object != nil {
					g, _, _ = unstructuredNestedString(o.Object.Object, "data", "gen")
				}
				gotSnap[o.Metadata.ResourceId] = g
			}
			wantSnap := map[string]string{}
			for _, k := range vc.LiveKeys() {
				st, _ := vc.Current(k)
				parts := strings.SplitN(k, "/", 2)
				wantSnap[parts[0]+"/ConfigMap/"+parts[1]] = fmt.Sprint(st.Gen)
				if !keepFull {
					wantSnap[parts[0]+"/ConfigMap/"+parts[1]] = "?"
				}
			}
			if vlib.JSON(gotSnap) != vlib.JSON(wantSnap) {
				res.Violate("snapshot-stale-after-suppressed-change/"+f.Kind, "final Snapshot() shows %v (resourceId -> generation), the cluster holds %v\nbinding %s\nhistory:\n%s", gotSnap, wantSnap, cfgJSON(bind), strings.Join(trace, "\n"))
			}
			cancel()
			settle()
			close(done)
			time.Sleep(time.Second)
			synctest.Wait()
		})
		if inconclusive != "" {
			res.Inconclusive = inconclusive
			return res
		}
		// compare emitted events (type + generation; generation is only visible with full objects)
		render := func(l []emitted) []string {
			var s []string
			for _, x := range l {
				if keepFull {
					s = append(s, x.Type+"@"+x.Gen)
				} else {
					s = append(s, x.Type)
				}
			}
			return s
		}
		g, w := render(got), render(want)
		// relists may legally coalesce nothing here (every step is settled), so sequences must be equal
		if strings.Join(g, ",") != strings.Join(w, ",") {
			cls := "missing-event"
			if len(g) > len(w) {
				cls = "extra-event"
			} else if len(g) == len(w) {
				cls = "different-events"
			}
			res.Violate("trigger/"+cls+"/jq-result="+f.Kind+"/listed="+strings.Join(evs, "+"), "events emitted (type@generation): %v\nreference trigger rule:          %v\nbinding %s\nhistory:\n%s", g, w, cfgJSON(bind), strings.Join(trace, "\n"))
		}
		res.Count("events_expected", int64(len(want)))
		res.Count("events_observed", int64(len(got)))
		res.Count("history_steps", int64(len(steps)))
		ops := map[string]int{}
		for _, s := range steps {
			ops[s.Op]++
		}
		var opk []string
		for _, k := range vlib.SortedKeys(ops) {
			opk = append(opk, fmt.Sprintf("%s%d", k[:2], ops[k]))
		}
		sort.Strings(opk)
		res.Key = fmt.Sprintf("%s|%s|full=%v|%s", f.Expr, strings.Join(evs, "+"), keepFull, strings.Join(opk, ""))
		if c.Index < 3 {
			res.Sample = m{"binding": bind, "history": trace, "events_emitted": g, "reference": w}
		}
		res.Replay = m{"binding": bind, "history": trace, "emitted": g, "reference": w}
		return res
	})
}

func unstructuredNestedString(obj map[string]any, fields ...string) (string, bool, error) {
	var cur any = obj
	for _, f := range fields {
		mm, ok := cur.(map[string]any)
		if !ok {
			return "", false, nil
		}
		cur = mm[f]
	}
	s, ok := cur.(string)
	return s, ok, nil
}

var _ = kemtypes.WatchEventAdded
