package checks

// Shared workload for C01 / C02 / C09: a whole operator over generated hooks
// with kubernetes bindings on the vcluster, a generated history of cluster
// mutations issued at chosen phases of startup and at steady state, optional
// schedule recipes (rendezvous), and the record of everything the hook
// processes received, matched to handler intervals and to the ground truth.

import (
	"encoding/json"
	"fmt"
	"sort"
	"strings"
	"sync"
	"testing"
	"testing/synctest"
	"time"

	"github.com/itchyny/gojq"

	"github.com/flant/shell-operator/pkg/hook/task_metadata"
	"github.com/flant/shell-operator/pkg/task"

	"verif/harness/vhk"
	"verif/harness/vlib"
)

type kbind struct {
	Hook     string
	Name     string
	Sel      vlib.KSel
	SelShape string
	Queue    string // "" = main
	Group    string
	Jq       string
	Events   []string // nil = all three
	OnSync   bool
	KeepFull bool
	Include  []string
}

func (b kbind) EffQueue() string {
	if b.Queue == "" {
		return "main"
	}
	return b.Queue
}

func (b kbind) Listed(ev string) bool {
	if b.Events == nil {
		return true
	}
	for _, e := range b.Events {
		if e == ev {
			return true
		}
	}
	return false
}

type khook struct {
	Rel      string
	Binds    []kbind
	SnapCron string // crontab of the hook's "snap" schedule binding (includes every kubernetes binding)
	SyncFail int    // scripted failures of the hook's first executions
	FailAt   []int  // further executions of the hook that fail (by execution index)
}

type kop struct {
	Op   string // put delete ns-add ns-relabel ns-delete tick-snap close-watches expire-watches stall-watches
	Ns   string
	Name string
	Lbl  map[string]string
}

type kcase struct {
	Hooks   []khook
	Pre     []kop // before the operator starts
	Mid     []kop // while a Synchronization hook is running (parked at op.afterHookRun)
	Between []kop // between AddMonitor and StartMonitor of the first binding
	Post    []kop // steady state
	Recipe  string
}

func (kc *kcase) bind(hook, name string) *kbind {
	for hi := range kc.Hooks {
		if kc.Hooks[hi].Rel != hook {
			continue
		}
		for bi := range kc.Hooks[hi].Binds {
			if kc.Hooks[hi].Binds[bi].Name == name {
				return &kc.Hooks[hi].Binds[bi]
			}
		}
	}
	return nil
}

var kNamespaces = []string{"ns1", "ns2", "dyn1", "dyn2"}
var kNames = []string{"a", "b", "c"}

// jq filters; the ones marked gen carry the generation id, so states can be identified without the object
var kFilters = []struct {
	Expr string
	Gen  bool
}{{"", false}, {".data", true}, {"{g: .data.gen}", true}, {".metadata.labels", false}, {".data.gen", true}, {"[.data.gen, .metadata.name]", true}, {".data.absent", false}, {"select(.metadata.labels.sel == \"x\") | .data.gen", false}}

func genKCase(rng interface{ IntN(int) int }, opts map[string]bool) *kcase {
	kc := &kcase{}
	nH := 1 + rng.IntN(2)
	nsLabelUsed := false
	for h := 0; h < nH; h++ {
		kh := khook{Rel: fmt.Sprintf("k%d.sh", h), SnapCron: fmt.Sprintf("%d 3 1 1 *", 10+h)}
		nb := 1 + rng.IntN(3)
		for b := 0; b < nb; b++ {
			kb := kbind{Hook: kh.Rel, Name: fmt.Sprintf("h%db%d", h, b), OnSync: rng.IntN(5) != 0, KeepFull: true}
			switch rng.IntN(6) {
			case 0:
				kb.SelShape = "all-namespaces"
			case 1:
				kb.SelShape = "ns-names"
				kb.Sel.NsNames = []string{"ns1", "dyn1"}
			case 2, 3:
				kb.SelShape = "ns-labels"
				kb.Sel.NsLabels = map[string]string{"watch": "yes"}
			case 4:
				kb.SelShape = "names"
				kb.Sel.Names = []string{"a", "b"}
				kb.Sel.NsNames = []string{"ns1"}
			case 5:
				kb.SelShape = "labels"
				kb.Sel.Labels = map[string]string{"sel": "x"}
			}
			// (Several bindings with namespace.labelSelector per case are fine since the sync-yield handler
			// of vlib.NewSys keeps FactoryStore.Start from arming a timer while it holds its mutex.)
			_ = nsLabelUsed
			if opts["no-dynamic-ns"] && kb.SelShape == "ns-labels" {
				kb.SelShape = "all-namespaces"
				kb.Sel = vlib.KSel{}
			}
			kb.Queue = []string{"", "", "q1", "q2"}[rng.IntN(4)]
			if rng.IntN(4) == 0 {
				kb.Group = "g"
			}
			f := kFilters[rng.IntN(len(kFilters))]
			kb.Jq = f.Expr
			if f.Gen && rng.IntN(3) == 0 {
				kb.KeepFull = false
			}
			if rng.IntN(3) == 0 {
				kb.Events = [][]string{{"Added"}, {"Modified", "Deleted"}, {"Added", "Modified"}, {"Deleted"}, {"Added", "Deleted"}, {}}[rng.IntN(6)]
			}
			kh.Binds = append(kh.Binds, kb)
		}
		// includeSnapshotsFrom between bindings of the hook
		for bi := range kh.Binds {
			if kh.Binds[bi].Group == "" && rng.IntN(3) == 0 {
				other := kh.Binds[rng.IntN(len(kh.Binds))].Name
				kh.Binds[bi].Include = []string{other}
			}
		}
		if opts["group-with-include"] && len(kc.Hooks)%2 == 0 {
			// a grouped binding that also lists bindings outside its group: the keys of its snapshots are the union
			// (no draw from rng: the other monitors that share this generator keep their case streams)
			for bi := range kh.Binds {
				if kh.Binds[bi].Group == "" {
					continue
				}
				for _, o := range kh.Binds {
					if o.Group != kh.Binds[bi].Group && len(kh.Binds[bi].Include) < 2 {
						kh.Binds[bi].Include = append(kh.Binds[bi].Include, o.Name)
					}
				}
			}
		}
		if rng.IntN(5) == 0 {
			kh.SyncFail = 1 + rng.IntN(2)
		}
		kc.Hooks = append(kc.Hooks, kh)
	}
	mkOps := func(n int, allowNs bool) []kop {
		var ops []kop
		for i := 0; i < n; i++ {
			ns := kNamespaces[rng.IntN(len(kNamespaces))]
			name := kNames[rng.IntN(len(kNames))]
			lbl := map[string]string{}
			if rng.IntN(2) == 0 {
				lbl["sel"] = "x"
			}
			switch r := rng.IntN(20); {
			case r < 11:
				ops = append(ops, kop{Op: "put", Ns: ns, Name: name, Lbl: lbl})
			case r < 15:
				ops = append(ops, kop{Op: "delete", Ns: ns, Name: name})
			case r < 17 && allowNs && !opts["no-dynamic-ns"]:
				ops = append(ops, kop{Op: "ns-relabel", Ns: []string{"dyn1", "dyn2"}[rng.IntN(2)], Lbl: map[string]string{"watch": []string{"yes", "no"}[rng.IntN(2)]}})
			case r < 18 && allowNs && !opts["no-dynamic-ns"]:
				ops = append(ops, kop{Op: "ns-delete", Ns: []string{"dyn1", "dyn2"}[rng.IntN(2)]})
			case r < 19 && opts["watch-faults"]:
				if rng.IntN(3) == 0 {
					// an outage: the watches deliver nothing while an object changes, then end with 410 Gone;
					// the informers learn what happened from their relist (deletions as tombstones)
					ops = append(ops, kop{Op: "stall-watches"})
					for k := 0; k < 1+rng.IntN(2); k++ {
						if rng.IntN(2) == 0 {
							ops = append(ops, kop{Op: "delete", Ns: ns, Name: name})
						} else {
							ops = append(ops, kop{Op: "put", Ns: ns, Name: name, Lbl: lbl})
						}
					}
					ops = append(ops, kop{Op: "expire-watches"})
				} else {
					ops = append(ops, kop{Op: []string{"close-watches", "expire-watches"}[rng.IntN(2)]})
				}
			default:
				ops = append(ops, kop{Op: "put", Ns: ns, Name: name, Lbl: lbl})
			}
		}
		return ops
	}
	kc.Pre = mkOps(rng.IntN(6), false)
	kc.Between = mkOps(rng.IntN(3), false)
	kc.Mid = mkOps(rng.IntN(4), false)
	kc.Post = mkOps(4+rng.IntN(14), true)
	return kc
}

func (kc *kcase) hookConfig(kh khook) m {
	cfg := m{"configVersion": "v1"}
	var kub []any
	var names []any
	for _, b := range kh.Binds {
		d := m{"name": b.Name, "apiVersion": "v1", "kind": "ConfigMap"}
		if b.Queue != "" {
			d["queue"] = b.Queue
		}
		if b.Group != "" {
			d["group"] = b.Group
		}
		if b.Jq != "" {
			d["jqFilter"] = b.Jq
		}
		if b.Events != nil {
			d["executeHookOnEvent"] = strs(b.Events)
		}
		if !b.OnSync {
			d["executeHookOnSynchronization"] = false
		}
		if !b.KeepFull {
			d["keepFullObjectsInMemory"] = false
		}
		if len(b.Include) > 0 {
			d["includeSnapshotsFrom"] = strs(b.Include)
		}
		if len(b.Sel.NsLabels) > 0 {
			ml := m{}
			for k, v := range b.Sel.NsLabels {
				ml[k] = v
			}
			d["namespace"] = m{"labelSelector": m{"matchLabels": ml}}
		} else if len(b.Sel.NsNames) > 0 {
			d["namespace"] = m{"nameSelector": m{"matchNames": strs(b.Sel.NsNames)}}
		}
		if len(b.Sel.Names) > 0 {
			d["nameSelector"] = m{"matchNames": strs(b.Sel.Names)}
		}
		if len(b.Sel.Labels) > 0 {
			ml := m{}
			for k, v := range b.Sel.Labels {
				ml[k] = v
			}
			d["labelSelector"] = m{"matchLabels": ml}
		}
		kub = append(kub, d)
		names = append(names, b.Name)
	}
	cfg["kubernetes"] = kub
	cfg["schedule"] = []any{m{"name": "snap", "crontab": kh.SnapCron, "includeSnapshotsFrom": names}}
	return cfg
}

// kexec is one hook execution matched to its handler interval.
type kexec struct {
	*vlib.Execution
	Queue    string
	EnterSeq int64
	ExitSeq  int64
	Status   string
	Idx      int // global index in the agents' log
}

type krecord struct {
	KC             *kcase
	VC             *vlib.VCluster
	Execs          []*kexec
	Trace          []string
	Final          map[string]map[string]int    // "hook/binding" -> key -> gen : ground truth at the end
	FinalSnapshots map[string]map[string]string // "hook/binding" -> resourceId -> gen as read through KubernetesSnapshots() at the end
	Armed          map[string]bool
	PhaseOf        map[int]string // generation -> phase in which it was written
	Inconclusive   string
	RestartSync    map[string][]string // after restart: "hook/binding" -> object ids with gen from the Synchronization
	RestartTruth   map[string]map[string]int
}

type kintv struct {
	Queue  string
	Hook   string
	Ran    bool
	Enter  int64
	Exit   int64
	Status string
	Ctx    string // binding names of the task's contexts when the handler returned
	used   bool
}

// applyOps issues mutations on the vcluster, recording phases.
func applyOps(vc *vlib.VCluster, ops []kop, phase string, rec *krecord, sys *vlib.Sys, kc *kcase) {
	for _, o := range ops {
		switch o.Op {
		case "put":
			if _, ok := vc.NsLabels(o.Ns); !ok {
				lbl := map[string]string{}
				if strings.HasPrefix(o.Ns, "dyn") {
					lbl["watch"] = "yes"
				}
				vc.EnsureNamespace(o.Ns, lbl)
				rec.Trace = append(rec.Trace, fmt.Sprintf("[%s] namespace %s appears with labels %v", phase, o.Ns, lbl))
				if sys != nil {
					sys.Advance(300 * time.Millisecond) // let a dynamic informer finish its cache-sync poll
				}
			}
			st := vc.Put(o.Ns, o.Name, o.Lbl, nil)
			rec.PhaseOf[st.Gen] = phase
			rec.Trace = append(rec.Trace, fmt.Sprintf("[%s] put %s/%s gen=%d labels=%v", phase, o.Ns, o.Name, st.Gen, o.Lbl))
		case "delete":
			if cur, ok := vc.Current(o.Ns + "/" + o.Name); ok {
				vc.Delete(o.Ns, o.Name)
				if h := vc.History[o.Ns+"/"+o.Name]; len(h) > 0 {
					rec.PhaseOf[h[len(h)-1].Gen] = phase
				}
				rec.Trace = append(rec.Trace, fmt.Sprintf("[%s] delete %s/%s (was gen=%d)", phase, o.Ns, o.Name, cur.Gen))
			}
		case "ns-relabel":
			if _, ok := vc.NsLabels(o.Ns); ok {
				vc.RelabelNamespace(o.Ns, o.Lbl)
				rec.Trace = append(rec.Trace, fmt.Sprintf("[%s] namespace %s relabelled %v", phase, o.Ns, o.Lbl))
				if sys != nil {
					sys.Advance(300 * time.Millisecond)
				}
			}
		case "ns-delete":
			if _, ok := vc.NsLabels(o.Ns); ok {
				vc.DeleteNamespace(o.Ns)
				for key, h := range vc.History {
					if strings.HasPrefix(key, o.Ns+"/") && len(h) > 0 && h[len(h)-1].Deleted && rec.PhaseOf[h[len(h)-1].Gen] == "" {
						rec.PhaseOf[h[len(h)-1].Gen] = phase
					}
				}
				rec.Trace = append(rec.Trace, fmt.Sprintf("[%s] namespace %s deleted with its objects", phase, o.Ns))
			}
		case "stall-watches":
			vc.StallWatches(true)
			rec.Trace = append(rec.Trace, fmt.Sprintf("[%s] watch outage begins: open watches deliver nothing", phase))
		case "close-watches", "expire-watches":
			var nw int
			if o.Op == "close-watches" {
				nw = vc.CloseWatches()
			} else {
				vc.StallWatches(false)
				nw = vc.ExpireWatches()
			}
			for i := 0; i < 100 && vc.OpenWatches() < nw; i++ {
				time.Sleep(time.Second)
				synctest.Wait()
			}
			rec.Trace = append(rec.Trace, fmt.Sprintf("[%s] %s: %d watches, re-established %d", phase, o.Op, nw, vc.OpenWatches()))
		}
		if sys != nil {
			synctest.Wait()
		}
	}
}

// runKCase executes the case and returns the record. extra is called at steady
// state (after Post) inside the bubble for check-specific actions.
func runKCase(c *vlib.Case, kc *kcase, restart bool, recipe func(sys *vlib.Sys, rec *krecord)) *krecord {
	return runKCaseR(c, kc, restart, nil, nil, recipe)
}

// runKCaseR: install is called right after the operator is assembled (before Start) so that
// schedule recipes can register rendezvous points; steady is called at steady state.
func runKCaseR(c *vlib.Case, kc *kcase, restart bool, install, drive, recipe func(sys *vlib.Sys, rec *krecord)) *krecord {
	rec := &krecord{KC: kc, Armed: map[string]bool{}, PhaseOf: map[int]string{}}
	hs := vlib.NewHookSet(c.Dir, "hooks")
	for _, kh := range kc.Hooks {
		hs.AddHook(kh.Rel, 0o755, cfgJSON(kc.hookConfig(kh)))
		for i := 0; i < kh.SyncFail; i++ {
			hs.Plan(kh.Rel, i, vhk.Directive{Exit: 1})
		}
		for _, i := range kh.FailAt {
			hs.Plan(kh.Rel, i, vhk.Directive{Exit: 1})
		}
	}
	var intervals []*kintv
	var imu sync.Mutex
	openIv := map[string]*kintv{}
	inBubble(c, func(t *testing.T) {
		vc := vlib.NewVCluster()
		rec.VC = vc
		vc.EnsureNamespace("default", nil)
		vc.EnsureNamespace("ns1", nil)
		vc.EnsureNamespace("ns2", nil)
		applyOps(vc, kc.Pre, "pre-start", rec, nil, kc)
		sys, err := vlib.NewSys(hs, vc.Cluster)
		if err != nil {
			rec.Inconclusive = "assemble: " + err.Error()
			sys.StopNow()
			return
		}
		defer sys.Stop()
		sys.Pts.On("q.handler.enter", func(ev vlib.PointEvent) {
			q := ev.Args[0].(string)
			tk, _ := ev.Args[1].(task.Task)
			iv := &kintv{Queue: q, Enter: ev.Seq}
			if tk != nil && tk.GetType() == task_metadata.HookRun {
				iv.Hook = task_metadata.HookMetadataAccessor(tk).HookName
			}
			imu.Lock()
			openIv[q] = iv
			intervals = append(intervals, iv)
			imu.Unlock()
		})
		sys.Pts.On("op.afterHookRun", func(ev vlib.PointEvent) {
			tk, _ := ev.Args[1].(task.Task)
			if tk == nil {
				return
			}
			imu.Lock()
			if iv := openIv[tk.GetQueueName()]; iv != nil {
				iv.Ran = ev.Args[4].(bool)
			}
			imu.Unlock()
		})
		sys.Pts.On("q.handler.exit", func(ev vlib.PointEvent) {
			q := ev.Args[0].(string)
			imu.Lock()
			if iv := openIv[q]; iv != nil {
				iv.Exit = ev.Seq
				iv.Status = fmt.Sprint(ev.Args[3])
				if tk, ok := ev.Args[1].(task.Task); ok && tk != nil && tk.GetType() == task_metadata.HookRun {
					var names []string
					for _, bc := range task_metadata.HookMetadataAccessor(tk).BindingContext {
						names = append(names, bc.Binding)
					}
					iv.Ctx = strings.Join(names, ",")
				}
			}
			imu.Unlock()
		})
		if install != nil {
			install(sys, rec)
		}
		// phase gates
		betweenGate := vlib.NewGate()
		defer betweenGate.Release()
		if len(kc.Between) > 0 {
			sys.Pts.On("kbc.betweenAddAndStart", func(ev vlib.PointEvent) { betweenGate.Park() })
		}
		midGate := vlib.NewGate()
		defer midGate.Release()
		if len(kc.Mid) > 0 {
			sys.Pts.On("op.afterHookRun", func(ev vlib.PointEvent) {
				if ev.Args[3].(bool) && fmt.Sprint(ev.Args[2]) == "Success" { // a successful Synchronization run, before the unlock
					midGate.Park()
				}
			})
		}
		sys.Start()
		if drive != nil {
			drive(sys, rec)
		}
		if len(kc.Between) > 0 {
			synctest.Wait()
			if betweenGate.Hit() {
				rec.Armed["between-add-and-start"] = true
				applyOps(vc, kc.Between, "between-AddMonitor-and-StartMonitor", rec, sys, kc)
			}
			betweenGate.Release()
		}
		if len(kc.Mid) > 0 {
			for i := 0; i < 60 && !midGate.Hit(); i++ {
				sys.Advance(500 * time.Millisecond)
			}
			if midGate.Hit() {
				rec.Armed["during-synchronization-hook"] = true
				applyOps(vc, kc.Mid, "while-Synchronization-hook-runs", rec, sys, kc)
			}
			midGate.Release()
		}
		if !sys.Settle(300) {
			rec.Inconclusive = "startup did not settle"
			return
		}
		if recipe != nil {
			recipe(sys, rec)
		}
		applyOps(vc, kc.Post, "steady-state", rec, sys, kc)
		if !sys.Settle(300) {
			rec.Inconclusive = "did not settle after the history"
			return
		}
		// forced snapshot executions at quiescence
		for _, kh := range kc.Hooks {
			tick(sys, kh.SnapCron)
		}
		if !sys.Settle(300) {
			rec.Inconclusive = "did not settle after the snapshot ticks"
			return
		}
		// ground truth and KubernetesSnapshots() at the end
		rec.Final = map[string]map[string]int{}
		rec.FinalSnapshots = map[string]map[string]string{}
		for _, kh := range kc.Hooks {
			h := sys.Op.HookManager.GetHook(kh.Rel)
			snaps := h.HookController.KubernetesSnapshots()
			for _, b := range kh.Binds {
				rec.Final[kh.Rel+"/"+b.Name] = vc.MatchingSet(b.Sel)
				mm := map[string]string{}
				for _, o := range snaps[b.Name] {
					g := "?"
					if o.Object != nil {
						g, _, _ = unstructuredNestedString(o.Object.Object, "data", "gen")
					}
					mm[o.Metadata.ResourceId] = g
				}
				rec.FinalSnapshots[kh.Rel+"/"+b.Name] = mm
			}
		}
		if restart {
			sys.Stop()
			hs2dir := c.Dir + "/restart"
			hs2 := vlib.NewHookSet(hs2dir, "hooks")
			for _, kh := range kc.Hooks {
				hs2.AddHook(kh.Rel, 0o755, cfgJSON(kc.hookConfig(kh)))
			}
			sys2, err := vlib.NewSys(hs2, vc.Cluster)
			if err == nil {
				sys2.Start()
				if sys2.Settle(300) {
					rec.RestartSync = map[string][]string{}
					rec.RestartTruth = map[string]map[string]int{}
					for _, ex := range hs2.Executions() {
						for _, cx := range ex.Contexts {
							if fmt.Sprint(cx["type"]) == "Synchronization" {
								k := ex.Hook + "/" + fmt.Sprint(cx["binding"])
								objs, _ := cx["objects"].([]any)
								ids := []string{}
								for _, o := range objs {
									ids = append(ids, itemID(o))
								}
								rec.RestartSync[k] = ids
							}
						}
					}
					for _, kh := range kc.Hooks {
						for _, b := range kh.Binds {
							rec.RestartTruth[kh.Rel+"/"+b.Name] = vc.MatchingSet(b.Sel)
						}
					}
				}
			}
			sys2.Stop()
		}
	})
	// match executions to handler intervals: an execution belongs to the earliest unused interval of its
	// hook whose task carried the same sequence of binding names (bindings determine the queue, and
	// intervals of one queue are serial, so equal sequences are matched in order)
	execs := hs.Executions()
	for i, ex := range execs {
		ke := &kexec{Execution: ex, Idx: i, Queue: "?"}
		var names []string
		for _, cx := range ex.Contexts {
			names = append(names, fmt.Sprint(cx["binding"]))
		}
		want := strings.Join(names, ",")
		for _, iv := range intervals {
			if iv.used || !iv.Ran || iv.Hook != ex.Hook || iv.Ctx != want {
				continue
			}
			iv.used = true
			ke.Queue, ke.EnterSeq, ke.ExitSeq, ke.Status = iv.Queue, iv.Enter, iv.Exit, iv.Status
			break
		}
		rec.Execs = append(rec.Execs, ke)
	}
	return rec
}

// itemID renders an {object, filterResult} item as "ns/name@gen" (gen "?" when not identifiable).
func itemID(o any) string {
	mm, _ := o.(map[string]any)
	if obj, ok := mm["object"].(map[string]any); ok && obj != nil {
		md, _ := obj["metadata"].(map[string]any)
		g, _, _ := unstructuredNestedString(obj, "data", "gen")
		return fmt.Sprintf("%v/%v@%s", md["namespace"], md["name"], g)
	}
	// without the object only the filterResult can identify the state
	return "?@" + genFromFilterResult(mm["filterResult"])
}

func genFromFilterResult(fr any) string {
	switch v := fr.(type) {
	case string:
		return v
	case map[string]any:
		if g, ok := v["gen"].(string); ok {
			return g
		}
		if g, ok := v["g"].(string); ok {
			return g
		}
	case []any:
		if len(v) > 0 {
			if g, ok := v[0].(string); ok {
				return g
			}
		}
	}
	return "?"
}

// jqRef evaluates a filter independently of the operator: single output -> its value.
func jqRef(expr string, obj map[string]any) (any, error) {
	q, err := gojq.Parse(expr)
	if err != nil {
		return nil, err
	}
	b, _ := json.Marshal(obj)
	var norm any
	_ = json.Unmarshal(b, &norm)
	it := q.Run(norm)
	v, ok := it.Next()
	if !ok {
		return nil, nil
	}
	if e, isErr := v.(error); isErr {
		return nil, e
	}
	jb, err := gojq.Marshal(v)
	if err != nil {
		return nil, err
	}
	var out any
	_ = json.Unmarshal(jb, &out)
	return out, nil
}

func sortedIDs(mm map[string]int) []string {
	var s []string
	for k, g := range mm {
		s = append(s, fmt.Sprintf("%s@%d", k, g))
	}
	sort.Strings(s)
	return s
}

func (rec *krecord) describe() string {
	var hb []string
	for _, kh := range rec.KC.Hooks {
		for _, b := range kh.Binds {
			hb = append(hb, fmt.Sprintf("%s/%s{sel=%s q=%s group=%q jq=%q events=%v onSync=%v keepFull=%v include=%v}", kh.Rel, b.Name, b.SelShape, b.EffQueue(), b.Group, b.Jq, b.Events, b.OnSync, b.KeepFull, b.Include))
		}
	}
	var ex []string
	for _, e := range rec.Execs {
		var parts []string
		for _, cx := range e.Contexts {
			s := vlib.CtxSummary([]map[string]any{cx})
			if o, ok := cx["object"]; ok || cx["filterResult"] != nil {
				s += "(" + itemID(map[string]any{"object": o, "filterResult": cx["filterResult"]}) + ")"
			}
			if objs, ok := cx["objects"].([]any); ok {
				var ids []string
				for _, o := range objs {
					ids = append(ids, itemID(o))
				}
				s += fmt.Sprintf("%v", ids)
			}
			parts = append(parts, s)
		}
		ex = append(ex, fmt.Sprintf("#%d %s q=%s seq[%d,%d] %s exit=%d: %s", e.Idx, e.Hook, e.Queue, e.EnterSeq, e.ExitSeq, e.Status, exitOf(e.Execution), strings.Join(parts, " ; ")))
	}
	return "bindings:\n  " + strings.Join(hb, "\n  ") + "\nhistory:\n  " + strings.Join(rec.Trace, "\n  ") + "\nexecutions:\n  " + strings.Join(ex, "\n  ")
}
