package checks

import (
	"os"
	"testing"

	"github.com/deckhouse/deckhouse/pkg/log"

	"verif/harness/vlib"
)

func TestMain(m *testing.M) {
	// Queue action metrics need a metric storage; the monitors do not provide one
	// to bare queues.
	_ = os.Setenv("QUEUE_ACTIONS_METRICS", "no")
	log.SetDefaultLevel(log.LevelFatal)
	e := vlib.GetEnv()
	rc := m.Run()
	e.Emit(map[string]any{"t": "worker_done", "rc": rc})
	os.Exit(rc)
}
