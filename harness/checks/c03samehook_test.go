package checks

// C03, one hook in two queues — a slow run of a hook in one queue must not hold
// back a run of the SAME hook in another queue (queues are independent; nothing
// in the statement ties a hook to one execution at a time).
//
// The slow run is a real process that sleeps 2.5 s of real time (virtual time
// stands still while a hook process runs, so nothing here is timed by the
// harness): the other queue's worker is parked in the handler of another hook's
// task with the hook's second task behind it, and released once the slow process
// has begun. Verdict from the agents' own monotonic clocks: the second execution
// must begin before the slow one ends.

import (
	"fmt"
	"testing"
	"time"

	"verif/harness/vhk"
	"verif/harness/vlib"
)

func TestC03SameHook(t *testing.T) {
	e := vlib.GetEnv()
	n := e.Pick(6, 120)
	vlib.RunCases(t, "C03", "same-hook-two-queues", n, func(c *vlib.Case) vlib.Result {
		var res vlib.Result
		kinds := [][2]string{{"qa", "qb"}, {"", "qb"}, {"qa", ""}}[c.Index%3]
		hs := vlib.NewHookSet(c.Dir, "hooks")
		sa := m{"name": "slow-side", "crontab": "21 6 6 6 *"}
		sb := m{"name": "fast-side", "crontab": "22 6 6 6 *"}
		if kinds[0] != "" {
			sa["queue"] = kinds[0]
		}
		if kinds[1] != "" {
			sb["queue"] = kinds[1]
		}
		hs.AddHook("h-both", 0o755, cfgJSON(m{"configVersion": "v1", "schedule": []any{sa, sb}}))
		hs.Plan("h-both", 0, vhk.Directive{SleepMs: 2500})
		qB := kinds[1]
		if qB == "" {
			qB = "main"
		}
		xs := m{"name": "x", "crontab": "23 6 6 6 *"}
		if kinds[1] != "" {
			xs["queue"] = kinds[1]
		}
		hs.AddHook("a-other", 0o755, cfgJSON(m{"configVersion": "v1", "schedule": []any{xs}}))
		armed := false
		inBubble(c, func(t *testing.T) {
			sys, err := vlib.NewSys(hs, nil)
			if err != nil {
				res.Inconclusive = "assemble: " + err.Error()
				sys.StopNow()
				return
			}
			defer sys.Stop()
			sys.Start()
			if !sys.Settle(100) {
				res.Inconclusive = "startup did not settle"
				return
			}
			gate := vlib.NewGate()
			defer gate.Release()
			sys.Pts.On("q.handler.enter", func(ev vlib.PointEvent) {
				if ev.Args[0].(string) == qB {
					gate.Park()
				}
			})
			tick(sys, "23 6 6 6 *") // a-other: parks qB's worker in its handler
			sys.Advance(600 * time.Millisecond)
			if !gate.Hit() {
				res.Inconclusive = "rendezvous of the second queue did not arm"
				return
			}
			tick(sys, "22 6 6 6 *") // h-both/fast-side waits behind it
			sys.Advance(100 * time.Millisecond)
			// when the slow-side run is about to start (its worker is past the rate limiter), a helper goroutine
			// waits - in real time, virtual time stands still while a hook process runs - until the process has
			// begun, and only then releases the second queue's worker
			helperDone := make(chan struct{})
			first := true
			sys.Pts.On("op.afterRateLimitWait", func(ev vlib.PointEvent) {
				if ev.Args[0].(string) != "h-both" || !first {
					return
				}
				first = false
				go func() {
					defer close(helperDone)
					for i := 0; i < 400 && !armed; i++ {
						realSleep(10 * time.Millisecond)
						for _, ex := range hs.Executions() {
							if ex.Hook == "h-both" && ex.End == nil {
								armed = true
							}
						}
					}
					gate.Release()
				}()
			})
			tick(sys, "21 6 6 6 *") // h-both/slow-side: its queue's idle worker picks it up at its next poll
			sys.Advance(600 * time.Millisecond)
			<-helperDone
			sys.Settle(100)
		})
		if res.Inconclusive != "" {
			return res
		}
		var slow, fast *vlib.Execution
		for _, ex := range hs.Executions() {
			if ex.Hook != "h-both" {
				continue
			}
			if ex.N == 0 {
				slow = ex
			} else if fast == nil {
				fast = ex
			}
		}
		if !armed || slow == nil || slow.End == nil {
			res.Inconclusive = "the slow execution was not observed running"
			return res
		}
		desc := fmt.Sprintf("hook h-both: binding slow-side in queue %q (first run sleeps 2.5 s), binding fast-side in queue %q behind a parked task of another hook, released while the slow run was in progress", kinds[0], kinds[1])
		if fast == nil {
			res.Violate("same-hook/other-queue-never-ran", "%s\nthe second execution never happened", desc)
		} else if fast.Begin.StartMono >= slow.End.EndMono {
			res.Violate("same-hook/other-queue-delayed", "%s\nthe second execution began %.0f ms AFTER the slow one ended (slow ran %.0f ms): the other queue waited for it", desc, float64(fast.Begin.StartMono-slow.End.EndMono)/1e6, float64(slow.End.EndMono-slow.Begin.StartMono)/1e6)
		}
		res.Count("same_hook_pairs_checked", 1)
		res.Key = fmt.Sprintf("%s|%s|%d", kinds[0], kinds[1], c.Index%2)
		if c.Index < 2 {
			res.Sample = m{"case": desc}
		}
		res.Replay = m{"case": desc}
		return res
	})
}
