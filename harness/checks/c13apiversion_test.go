package checks

// C13, addressing — every operation that names an object by apiVersion/kind/
// namespace/name acts on exactly that object, also when the kind is served by
// more than one API group (Ingress on a 1.19 cluster: extensions/v1beta1 comes
// first in discovery, networking.k8s.io/v1 later). All patch flavours, the three
// delete modes, JSON and YAML, with and without a same-named object in the other
// group, with and without ignoreMissingObject.

import (
	"context"
	"encoding/json"
	"fmt"
	"testing"

	"github.com/deckhouse/deckhouse/pkg/log"
	metav1 "k8s.io/apimachinery/pkg/apis/meta/v1"
	"k8s.io/apimachinery/pkg/apis/meta/v1/unstructured"
	"k8s.io/apimachinery/pkg/runtime/schema"
	sigyaml "sigs.k8s.io/yaml"

	"github.com/flant/kube-client/fake"
	objectpatch "github.com/flant/shell-operator/pkg/kube/object_patch"

	"verif/harness/vlib"
)

func TestC13ApiVersion(t *testing.T) {
	e := vlib.GetEnv()
	ops := []string{"MergePatch", "JSONPatch", "JQPatch", "Delete", "DeleteInBackground", "DeleteNonCascading"}
	n := e.Pick(len(ops)*8, len(ops)*8*4)
	netGVR := schema.GroupVersionResource{Group: "networking.k8s.io", Version: "v1", Resource: "ingresses"}
	extGVR := schema.GroupVersionResource{Group: "extensions", Version: "v1beta1", Resource: "ingresses"}
	vlib.RunCases(t, "C13", "addressing", n, func(c *vlib.Case) vlib.Result {
		var res vlib.Result
		op := ops[c.Index%len(ops)]
		v := c.Index / len(ops)
		format := []string{"json", "yaml"}[v%2]
		twin := (v/2)%2 == 1
		ignoreMissing := (v/4)%2 == 1
		cluster := fake.NewFakeCluster(fake.ClusterVersionV119)
		dyn := cluster.Client.Dynamic()
		mk := func(apiVersion string) *unstructured.Unstructured {
			return &unstructured.Unstructured{Object: map[string]any{"apiVersion": apiVersion, "kind": "Ingress", "metadata": map[string]any{"name": "ing", "namespace": "default", "labels": map[string]any{"own": apiVersion}}}}
		}
		if _, err := dyn.Resource(netGVR).Namespace("default").Create(context.TODO(), mk("networking.k8s.io/v1"), metav1.CreateOptions{}); err != nil {
			res.Inconclusive = "create: " + err.Error()
			return res
		}
		if twin {
			if _, err := dyn.Resource(extGVR).Namespace("default").Create(context.TODO(), mk("extensions/v1beta1"), metav1.CreateOptions{}); err != nil {
				res.Inconclusive = "create twin: " + err.Error()
				return res
			}
		}
		if g, err := cluster.Client.GroupVersionResource("", "Ingress"); err != nil || g == netGVR {
			res.Inconclusive = fmt.Sprintf("premise: a lookup of kind Ingress alone resolves %v (%v)", g, err)
			return res
		}
		doc := map[string]any{"operation": op, "apiVersion": "networking.k8s.io/v1", "kind": "Ingress", "namespace": "default", "name": "ing"}
		switch op {
		case "MergePatch":
			doc["mergePatch"] = map[string]any{"metadata": map[string]any{"labels": map[string]any{"patched": "yes"}}}
		case "JSONPatch":
			doc["jsonPatch"] = []any{map[string]any{"op": "add", "path": "/metadata/labels/patched", "value": "yes"}}
		case "JQPatch":
			doc["jqFilter"] = `.metadata.labels.patched = "yes"`
		}
		if ignoreMissing && (op == "MergePatch" || op == "JSONPatch" || op == "JQPatch") {
			doc["ignoreMissingObject"] = true
		}
		var stream []byte
		if format == "json" {
			stream, _ = json.Marshal(doc)
		} else {
			stream, _ = sigyaml.Marshal(doc)
		}
		desc := fmt.Sprintf("%s of networking.k8s.io/v1 Ingress default/ing (%s, same-named object in extensions/v1beta1: %v, ignoreMissingObject: %v)\n%s", op, format, twin, ignoreMissing, stream)
		parsed, err := objectpatch.ParseOperations(stream)
		if err != nil {
			res.Violate("addressing/valid-document-rejected/"+op, "%s\n%v", desc, err)
			return res
		}
		if err := objectpatch.NewObjectPatcher(cluster.Client, log.NewNop()).ExecuteOperations(parsed); err != nil {
			res.Violate("addressing/operation-failed/"+op, "the addressed object exists, the operation failed: %v\n%s", err, desc)
		}
		labelsOf := func(gvr schema.GroupVersionResource) (map[string]string, bool) {
			o, err := dyn.Resource(gvr).Namespace("default").Get(context.TODO(), "ing", metav1.GetOptions{})
			if err != nil {
				return nil, false
			}
			return o.GetLabels(), true
		}
		netL, netOK := labelsOf(netGVR)
		extL, extOK := labelsOf(extGVR)
		res.Count("addressed_operations_checked", 1)
		isDelete := op == "Delete" || op == "DeleteInBackground" || op == "DeleteNonCascading"
		if isDelete {
			if netOK {
				res.Violate("addressing/addressed-object-not-deleted/"+op, "%s", desc)
			}
		} else if !netOK || netL["patched"] != "yes" {
			res.Violate("addressing/addressed-object-not-patched/"+op, "the addressed object has labels %v\n%s", netL, desc)
		}
		if twin && (!extOK || extL["patched"] != "" || extL["own"] != "extensions/v1beta1") {
			res.Violate("addressing/another-object-touched/"+op, "the same-named object of extensions/v1beta1 was changed or deleted (exists=%v labels=%v)\n%s", extOK, extL, desc)
		}
		res.Key = fmt.Sprintf("%s-%s-twin%v-ignore%v", op, format, twin, ignoreMissing)
		if c.Index < 2 {
			res.Sample = m{"case": desc}
		}
		return res
	})
}
