package checks

// C17 — shutdown stops the queues cleanly.
//
// Stop points are enumerated (fault_enumeration) over the states a queue can be
// in: idle, backing off after a failure (stop right after the failure, between
// two wait ticks, exactly on a wait tick, exactly on the tick the delay expires),
// idle with a task that arrived since the last poll (stop at the instant of the
// polling tick, and stop requested from inside the tick, i.e. right after the
// worker's select chose the ticker),
// handler in flight (parked by the harness) with tasks behind it; several queues
// in different states at once; stop through Shutdown(), TaskQueues.Stop() and
// ShellOperator.Stop(); events and ticks arriving after the stop; stop while an
// informer is inside its cache-sync poll.
//
// Deciding facts:
//  (A) quiescent stop (requested right after synctest.Wait()): no handler is
//      entered after the stop request in an idle/backing-off queue; a queue with
//      a handler in flight enters nothing after that handler returned.
//  (B) any stop: a worker that has itself observed ctx.Err()!=nil at
//      q.wait.begin / q.wait.tick must not enter a handler afterwards.
//  Both: every worker reaches q.worker.exit once in-flight handlers returned;
//  ticks and cluster changes injected after the stop produce no execution.

import (
	"context"
	"fmt"
	"strings"
	"testing"
	"testing/synctest"
	"time"

	corev1 "k8s.io/api/core/v1"
	metav1 "k8s.io/apimachinery/pkg/apis/meta/v1"

	"verif/harness/vhk"
	"verif/harness/vlib"
)

type c17case struct {
	BackoffStop  string // none after-fail mid-delay on-tick at-expiry
	InFlight     int    // -1: no handler in flight; n>=0: handler parked with n tasks behind it
	How          string // Shutdown QueuesStop OperatorStop
	InformerPoll bool   // a namespace appears right before the stop (dynamic informer inside its sync poll)
	Rep          int
}

func (c c17case) String() string {
	return fmt.Sprintf("backoff=%s/inflight=%d/how=%s/informer-poll=%v", c.BackoffStop, c.InFlight, c.How, c.InformerPoll)
}

const (
	c17cronFail  = "5 5 5 5 *"
	c17cronSlow  = "6 6 6 6 *"
	c17cronIdle  = "7 7 7 7 *"
	c17cronIdle2 = "8 7 7 7 *"
)

func TestC17(t *testing.T) {
	e := vlib.GetEnv()
	var cat []c17case
	for _, how := range []string{"Shutdown", "QueuesStop", "OperatorStop"} {
		for _, bo := range []string{"none", "after-fail", "mid-delay", "on-tick", "at-expiry", "second-backoff-tail"} {
			for _, inf := range []int{-1, 0, 1, 5} {
				cat = append(cat, c17case{BackoffStop: bo, InFlight: inf, How: how})
			}
		}
		for _, bo := range []string{"idle-on-tick", "idle-in-tick", "between-tasks"} {
			for _, inf := range []int{-1, 1} {
				cat = append(cat, c17case{BackoffStop: bo, InFlight: inf, How: how})
			}
		}
		cat = append(cat, c17case{BackoffStop: "none", InFlight: -1, How: how, InformerPoll: true})
		cat = append(cat, c17case{BackoffStop: "at-expiry", InFlight: 1, How: how, InformerPoll: true})
	}
	reps := e.Pick(6, 600)
	n := len(cat) * reps
	vlib.RunCases(t, "C17", "stop", n, func(c *vlib.Case) vlib.Result {
		var res vlib.Result
		cs := cat[c.Index%len(cat)]
		cs.Rep = c.Index / len(cat)
		c17run(c, cs, &res)
		return res
	})
}

func c17run(c *vlib.Case, cs c17case, res *vlib.Result) {
	hs := vlib.NewHookSet(c.Dir, "hooks")
	hs.AddHook("h-fail", 0o755, cfgJSON(m{"configVersion": "v1", "schedule": []any{m{"name": "sF", "crontab": c17cronFail, "queue": "qf"}}}))
	hs.Plan("h-fail", -1, vhk.Directive{Exit: 1})
	hs.AddHook("h-slow", 0o755, cfgJSON(m{"configVersion": "v1", "schedule": []any{m{"name": "sS", "crontab": c17cronSlow, "queue": "qs"}}}))
	hs.AddHook("h-idle", 0o755, cfgJSON(m{"configVersion": "v1", "onStartup": 1.0, "schedule": []any{m{"name": "sI", "crontab": c17cronIdle, "queue": "qi"}}}))
	hs.AddHook("h-idle2", 0o755, cfgJSON(m{"configVersion": "v1", "schedule": []any{m{"name": "sI2", "crontab": c17cronIdle2, "queue": "qi"}}}))
	hs.AddHook("h-kube", 0o755, cfgJSON(m{"configVersion": "v1", "kubernetes": []any{
		m{"name": "kK", "apiVersion": "v1", "kind": "ConfigMap", "queue": "qk", "namespace": m{"labelSelector": m{"matchLabels": m{"watch": "yes"}}}},
	}}))

	var log []vlib.PointEvent
	var stopBegin, stopEnd int64
	var parkedTaskExitSeq, inTickStopSeq int64
	var statuses map[string]string
	execsBefore, execsAfter := 0, 0
	var trace []string
	logf := func(f string, a ...any) { trace = append(trace, fmt.Sprintf(f, a...)) }
	quiescent := cs.BackoffStop == "none" || cs.BackoffStop == "mid-delay" || cs.BackoffStop == "second-backoff-tail"

	inBubble(c, func(t *testing.T) {
		sys, err := vlib.NewSys(hs, nil)
		if err != nil {
			res.Inconclusive = "assemble: " + err.Error()
			sys.StopNow()
			return
		}
		defer sys.StopNow()
		if cs.InformerPoll {
			sys.Pts.Clear(vlib.SyncYieldPoint) // this case wants the informer inside its cache-sync poll at the stop
		}
		sys.Pts.Record("q.handler.enter", "q.handler.exit", "q.worker.exit", "q.wait.begin", "q.wait.tick", "op.afterHookRun")
		sys.Start()
		if !sys.Settle(100) {
			res.Inconclusive = "startup did not settle"
			return
		}
		// in-flight handler
		gate := vlib.NewGate()
		defer gate.Release()
		if cs.InFlight >= 0 {
			sys.Pts.On("op.afterHookRun", func(ev vlib.PointEvent) {
				if ev.Args[0].(string) == "h-slow" {
					gate.Park()
				}
			})
			tick(sys, c17cronSlow)
			sys.Advance(600 * time.Millisecond)
			if !gate.Hit() {
				res.Inconclusive = "in-flight rendezvous did not arm"
				return
			}
			for i := 0; i < cs.InFlight; i++ {
				tick(sys, c17cronSlow)
				synctest.Wait()
			}
			logf("handler of h-slow parked inside its handler with %d tasks behind it", cs.InFlight)
		}
		// two tasks of different hooks in one queue; the stop is requested right after the first one was
		// handled and its result applied, before the worker looks at the queue again
		if cs.BackoffStop == "between-tasks" {
			sys.Pts.On("q.loop.end", func(ev vlib.PointEvent) {
				if ev.Args[0].(string) == "qi" && inTickStopSeq == 0 {
					sys.Op.TaskQueues.Stop()
					inTickStopSeq = sys.Pts.NextSeq()
				}
			})
			tick(sys, c17cronIdle)
			tick(sys, c17cronIdle2)
			for i := 0; i < 10 && inTickStopSeq == 0; i++ {
				sys.Advance(250 * time.Millisecond)
			}
			if inTickStopSeq == 0 {
				res.Inconclusive = "the first of the two tasks was never handled"
				return
			}
			logf("queue qi held two tasks (h-idle, h-idle2); stop requested right after the first was handled and its result applied (seq %d)", inTickStopSeq)
		} else if strings.HasPrefix(cs.BackoffStop, "idle-") {
			lastTick := func() time.Time {
				var lt time.Time
				for _, ev := range sys.Pts.Log() {
					if ev.Name == "q.wait.tick" && ev.Args[0].(string) == "qi" {
						lt = ev.VT
					}
				}
				return lt
			}
			sys.Advance(600 * time.Millisecond)
			lt := lastTick()
			if lt.IsZero() {
				res.Inconclusive = "idle queue qi never polled"
				return
			}
			// between two polls: the tick's task lands in qi unnoticed
			time.Sleep(time.Until(lt.Add(60 * time.Millisecond)))
			synctest.Wait()
			tick(sys, c17cronIdle)
			synctest.Wait()
			if n := len(sys.QueueTasks("qi")); n != 1 {
				res.Inconclusive = fmt.Sprintf("expected one pending task in idle queue qi, found %d", n)
				return
			}
			k := 1 + cs.Rep%2 // the next polling tick or the one after
			at := lt.Add(time.Duration(k) * 125 * time.Millisecond)
			if cs.BackoffStop == "idle-in-tick" {
				sys.Pts.On("q.wait.tick", func(ev vlib.PointEvent) {
					if ev.Args[0].(string) == "qi" && inTickStopSeq == 0 && !ev.VT.Before(at) {
						// the stop request lands right after the worker's select chose the ticker
						sys.Op.TaskQueues.Stop()
						inTickStopSeq = sys.Pts.NextSeq()
					}
				})
				time.Sleep(time.Until(at.Add(time.Millisecond)))
				synctest.Wait()
				logf("idle queue qi holds one task; stop requested from inside its poll tick at +%dx125ms (seq %d)", k, inTickStopSeq)
			} else {
				// harness and worker wake at the same instant; their order is up to the scheduler
				time.Sleep(time.Until(at))
				logf("idle queue qi holds one task; stop requested at the instant of its poll tick +%dx125ms", k)
			}
		} else if cs.BackoffStop != "none" {
			tick(sys, c17cronFail)
			// wait for the first failure
			var failExit time.Time
			for i := 0; i < 20 && failExit.IsZero(); i++ {
				sys.Advance(125 * time.Millisecond)
				for _, ev := range sys.Pts.Log() {
					if ev.Name == "q.handler.exit" && ev.Args[0].(string) == "qf" && fmt.Sprint(ev.Args[3]) == "Fail" {
						failExit = ev.VT
					}
				}
			}
			if failExit.IsZero() {
				res.Inconclusive = "failing hook did not fail"
				return
			}
			switch cs.BackoffStop {
			case "second-backoff-tail":
				// the back-off after the second consecutive failure is not a multiple of the wait loop's check
				// interval (it carries a random part): stop in the last, partial interval before it expires
				var fail2 time.Time
				for i := 0; i < 80 && fail2.IsZero(); i++ {
					sys.Advance(125 * time.Millisecond)
					nf := 0
					for _, ev := range sys.Pts.Log() {
						if ev.Name == "q.handler.exit" && ev.Args[0].(string) == "qf" && fmt.Sprint(ev.Args[3]) == "Fail" {
							nf++
							if nf == 2 {
								fail2 = ev.VT
							}
						}
					}
				}
				st := sys.Op.TaskQueues.GetByName("qf").GetStatus()
				d, perr := time.ParseDuration(strings.TrimPrefix(st, "sleep after fail for "))
				if fail2.IsZero() || perr != nil {
					res.Inconclusive = fmt.Sprintf("second failure not reached or delay unknown (status %q)", st)
					return
				}
				rem := d % (125 * time.Millisecond)
				at := fail2.Add(d - rem/2)
				if rem == 0 {
					at = fail2.Add(d - 60*time.Millisecond)
				}
				time.Sleep(time.Until(at))
				synctest.Wait()
				failExit = fail2
				logf("second back-off of qf is %v (remainder %v over the 125ms check interval)", d, rem)
			case "after-fail":
				// stop at the very instant of the failure (no time advance since)
			case "mid-delay":
				time.Sleep(time.Until(failExit.Add(2560 * time.Millisecond)))
				synctest.Wait()
			case "on-tick":
				// a wait-loop tick that is not the expiry: harness and worker wake at the same instant
				k := 3 + cs.Rep%30
				time.Sleep(time.Until(failExit.Add(time.Duration(k) * 125 * time.Millisecond)))
			case "at-expiry":
				time.Sleep(time.Until(failExit.Add(5 * time.Second)))
			}
			logf("queue qf failed at %s, stop requested at +%v", failExit.Format("05.000"), time.Since(failExit))
		}
		if cs.InformerPoll {
			ns := &corev1.Namespace{ObjectMeta: metav1.ObjectMeta{Name: "late-ns", Labels: map[string]string{"watch": "yes"}}}
			_, _ = sys.Cluster.Client.CoreV1().Namespaces().Create(context.TODO(), ns, metav1.CreateOptions{})
			if quiescent {
				synctest.Wait()
			}
		} else if quiescent {
			synctest.Wait()
		}
		execsBefore = len(hs.Executions())
		stopBegin = sys.Pts.NextSeq()
		switch cs.How {
		case "Shutdown":
			sys.Op.Shutdown()
		case "QueuesStop":
			sys.Op.TaskQueues.Stop()
		case "OperatorStop":
			sys.Op.Stop()
		}
		stopEnd = sys.Pts.NextSeq()
		synctest.Wait()
		// events and ticks after the stop
		for _, cr := range []string{c17cronFail, c17cronSlow, c17cronIdle, c17cronIdle2} {
			select {
			case sys.Op.ScheduleManager.Ch() <- cr:
			default:
			}
			synctest.Wait()
		}
		_ = createCM(sys, "default", "after-stop", 1)
		sys.Advance(7 * time.Second)
		if cs.InFlight >= 0 {
			gate.Release()
			synctest.Wait()
			for _, ev := range sys.Pts.Log() {
				if ev.Name == "q.handler.exit" && ev.Args[0].(string) == "qs" {
					parkedTaskExitSeq = ev.Seq
				}
			}
		}
		sys.Advance(12 * time.Second)
		log = sys.Pts.Log()
		statuses = map[string]string{}
		for _, qn := range sys.QueueNames() {
			statuses[qn] = sys.Op.TaskQueues.GetByName(qn).GetStatus()
		}
		execsAfter = len(hs.Executions())
	})
	if res.Inconclusive != "" {
		return
	}
	// ---- oracle
	desc := func() string { return cs.String() + "\n" + strings.Join(trace, "\n") }
	sawDone := map[string]bool{}
	exited := map[string]bool{}
	entersAfterStop := map[string]int{}
	for _, ev := range log {
		q, _ := ev.Args[0].(string)
		switch ev.Name {
		case "q.wait.begin", "q.wait.tick":
			if ev.Args[1].(bool) {
				sawDone[q] = true
				res.Count("workers_observed_cancelled_context_in_wait_loop", 1)
			}
		case "q.worker.exit":
			exited[q] = true
		case "q.handler.enter":
			if sawDone[q] {
				res.Violate("task-started-after-worker-saw-stop/"+cs.BackoffStop, "queue %s entered a handler (seq %d) after its worker had observed the cancelled context in the wait loop\n%s", q, ev.Seq, desc())
			}
			if inTickStopSeq != 0 && q == "qi" && ev.Seq > inTickStopSeq {
				sig, where := "task-started-after-stop-inside-poll-tick", "inside its polling tick, before it had picked the task"
				if cs.BackoffStop == "between-tasks" {
					sig, where = "task-started-after-stop-between-tasks", "between two tasks, after the first one's result had been applied"
				}
				res.Violate(sig, "queue qi entered a handler (seq %d) although the stop was requested (seq %d) %s\n%s", ev.Seq, inTickStopSeq, where, desc())
			}
			if ev.Seq > stopEnd {
				entersAfterStop[q]++
				if q == "qs" && cs.InFlight >= 0 {
					res.Violate("task-started-after-inflight-handler/"+cs.How, "queue qs started another task (seq %d) after the stop although it only had to finish the handler in flight\n%s", ev.Seq, desc())
				} else if quiescent {
					res.Violate("task-started-after-quiescent-stop/"+cs.BackoffStop, "queue %s entered a handler (seq %d) after the stop returned (seq %d); the queue was parked in its wait loop when the stop was requested\n%s", q, ev.Seq, stopEnd, desc())
				}
			}
		}
	}
	_, _ = parkedTaskExitSeq, stopBegin
	for q, st := range statuses {
		if !exited[q] {
			res.Violate("worker-did-not-terminate/"+cs.How, "worker of queue %s did not reach its exit within 19 virtual seconds after the stop and the release of in-flight handlers (status %q)\n%s", q, st, desc())
		} else if st != "stop" {
			res.Violate("status-not-stop/"+cs.How, "queue %s exited but reports status %q\n%s", q, st, desc())
		}
	}
	if quiescent && execsAfter > execsBefore && cs.InFlight < 0 {
		res.Violate("execution-after-stop/"+cs.How, "%d hook executions started after the stop\n%s", execsAfter-execsBefore, desc())
	}
	res.Count("stop_points_exercised", 1)
	res.Count("queues_checked", int64(len(statuses)))
	res.Key = fmt.Sprintf("%s/rep%d", cs.String(), cs.Rep%3)
	if c.Index < 3 {
		res.Sample = m{"case": cs.String(), "trace": trace, "queue_status_after_stop": statuses, "points_recorded": len(log)}
	}
	res.Replay = m{"case": cs.String(), "trace": trace}
}
