package checks

// C11 — schedules: one task per binding per tick; crontabs are reference-counted.
//
//   refcount : the real ScheduleManager (real cron) in virtual time; random
//              histories of Add/Remove of (crontab, id) pairs; ticks read from
//              Ch() are counted per crontab per virtual second and compared
//              with a reference ref-count.
//   system   : whole operator; ticks injected on the schedule channel; per tick
//              every enabled binding with that crontab must receive exactly one
//              context (Schedule or Group) in its own queue with its name,
//              group and snapshots keys; nobody else receives anything.

import (
	"context"
	"fmt"
	"sort"
	"strings"
	"sync"
	"testing"
	"testing/synctest"
	"time"

	"github.com/deckhouse/deckhouse/pkg/log"

	"github.com/flant/shell-operator/pkg/hook/task_metadata"
	schedulemanager "github.com/flant/shell-operator/pkg/schedule_manager"
	smtypes "github.com/flant/shell-operator/pkg/schedule_manager/types"
	"github.com/flant/shell-operator/pkg/task"

	"verif/harness/vhk"
	"verif/harness/vlib"
)

func TestC11Refcount(t *testing.T) {
	e := vlib.GetEnv()
	n := e.Pick(160, 60000)
	crontabs := []string{"* * * * * *", "*/2 * * * * *", "*/3 * * * * *"}
	period := map[string]int{"* * * * * *": 1, "*/2 * * * * *": 2, "*/3 * * * * *": 3}
	ids := []string{"i1", "i2", "i3", "i4"}
	vlib.RunCases(t, "C11", "refcount", n, func(c *vlib.Case) vlib.Result {
		var res vlib.Result
		rng := c.Rng
		nOps := 3 + rng.IntN(10)
		type op struct {
			Add     bool
			Crontab string
			ID      string
		}
		var ops []op
		for i := 0; i < nOps; i++ {
			ops = append(ops, op{Add: rng.IntN(5) < 3, Crontab: crontabs[rng.IntN(3)], ID: ids[rng.IntN(4)]})
		}
		var trace []string
		inBubble(c, func(t *testing.T) {
			ctx, cancel := context.WithCancel(context.Background())
			sm := schedulemanager.NewScheduleManager(ctx, log.NewNop())
			var mu sync.Mutex
			type tk struct {
				cr string
				at time.Time
			}
			var ticks []tk
			done := make(chan struct{})
			go func() {
				for {
					select {
					case cr := <-sm.Ch():
						mu.Lock()
						ticks = append(ticks, tk{cr, time.Now()})
						mu.Unlock()
					case <-done:
						return
					}
				}
			}()
			sm.Start()
			time.Sleep(500 * time.Millisecond) // operations happen at x.5 s, firings at whole seconds
			synctest.Wait()
			ref := map[string]map[string]bool{}
			for i, o := range ops {
				if o.Add {
					sm.Add(smtypes.ScheduleEntry{Crontab: o.Crontab, Id: o.ID})
					if ref[o.Crontab] == nil {
						ref[o.Crontab] = map[string]bool{}
					}
					ref[o.Crontab][o.ID] = true
				} else {
					sm.Remove(smtypes.ScheduleEntry{Crontab: o.Crontab, Id: o.ID})
					if ref[o.Crontab] != nil {
						delete(ref[o.Crontab], o.ID)
					}
				}
				synctest.Wait()
				t0 := time.Now()
				time.Sleep(6 * time.Second)
				synctest.Wait()
				t1 := time.Now()
				mu.Lock()
				got := map[string][]int{}
				for _, x := range ticks {
					if x.at.After(t0) && !x.at.After(t1) {
						got[x.cr] = append(got[x.cr], x.at.Second())
					}
				}
				mu.Unlock()
				verb := "Remove"
				if o.Add {
					verb = "Add"
				}
				trace = append(trace, fmt.Sprintf("%s(%s,%s) -> ticks in the next 6s: %v", verb, o.Crontab, o.ID, got))
				for _, cr := range crontabs {
					var want []int
					if len(ref[cr]) > 0 {
						for s := t0.Truncate(time.Second).Add(time.Second); !s.After(t1); s = s.Add(time.Second) {
							if s.Second()%period[cr] == 0 {
								want = append(want, s.Second())
							}
						}
					}
					res.Count("crontab_windows_checked", 1)
					if fmt.Sprint(got[cr]) != fmt.Sprint(want) {
						cls := "missing-or-extra"
						if len(got[cr]) > len(want) && len(want) > 0 {
							cls = "duplicate-firing"
						} else if len(want) == 0 {
							cls = "fires-without-registration"
						} else if len(got[cr]) == 0 {
							cls = "stopped-while-registered"
						}
						res.Violate("refcount/"+cls, "after op #%d %s(%s,%s) with registered ids %v: crontab %q fired at seconds %v, expected %v\nhistory:\n%s", i, verb, o.Crontab, o.ID, keysOf(ref[cr]), cr, got[cr], want, strings.Join(trace, "\n"))
						break
					}
				}
				if len(res.Violations) > 0 {
					break
				}
			}
			sm.Stop()
			cancel()
			close(done)
			time.Sleep(2 * time.Second)
			synctest.Wait()
		})
		adds, rems := 0, 0
		for _, o := range ops {
			if o.Add {
				adds++
			} else {
				rems++
			}
		}
		res.Key = fmt.Sprintf("ops%d-add%d-rem%d-%d", nOps, adds, rems, c.Index%16)
		if c.Index < 2 {
			res.Sample = m{"history": trace}
		}
		res.Replay = m{"history": trace}
		return res
	})
}

func keysOf(mm map[string]bool) []string {
	var ks []string
	for k := range mm {
		ks = append(ks, k)
	}
	sort.Strings(ks)
	return ks
}

type c11sb struct {
	Hook    string
	Name    string
	Crontab string
	Queue   string
	Group   string
	Allow   bool
	Include []string
}

func TestC11System(t *testing.T) {
	e := vlib.GetEnv()
	n := e.Pick(40, 6000)
	crontabs := []string{"30 1 1 1 *", "31 1 1 1 *", "32 1 1 1 *", "33 1 1 1 *"}
	vlib.RunCases(t, "C11", "system", n, func(c *vlib.Case) vlib.Result {
		var res vlib.Result
		rng := c.Rng
		hs := vlib.NewHookSet(c.Dir, "hooks")
		nH := 2 + rng.IntN(3)
		var sbs []c11sb
		kubeOf := map[string][]string{} // hook -> kubernetes binding names
		kubeGroup := map[string]map[string]string{}
		for h := 0; h < nH; h++ {
			hook := fmt.Sprintf("h%d", h)
			cfg := m{"configVersion": "v1"}
			var kub []any
			kubeGroup[hook] = map[string]string{}
			for k := rng.IntN(3); k > 0; k-- {
				name := fmt.Sprintf("%s-k%d", hook, k)
				d := m{"name": name, "apiVersion": "v1", "kind": "ConfigMap", "executeHookOnSynchronization": false}
				if rng.IntN(3) == 0 {
					d["group"] = "grp"
					kubeGroup[hook][name] = "grp"
				}
				kub = append(kub, d)
				kubeOf[hook] = append(kubeOf[hook], name)
			}
			if len(kub) > 0 {
				cfg["kubernetes"] = kub
			}
			var sch []any
			for s := 1 + rng.IntN(3); s > 0; s-- {
				b := c11sb{Hook: hook, Name: fmt.Sprintf("%s-s%d", hook, s), Crontab: crontabs[rng.IntN(len(crontabs)-1)], Queue: []string{"", "", "q1", "q2"}[rng.IntN(4)]}
				d := m{"name": b.Name, "crontab": b.Crontab}
				if b.Queue != "" {
					d["queue"] = b.Queue
				}
				if rng.IntN(4) == 0 {
					b.Group = "grp"
					d["group"] = "grp"
				}
				if rng.IntN(4) == 0 {
					b.Allow = true
					d["allowFailure"] = true
				}
				if len(kubeOf[hook]) > 0 && rng.IntN(2) == 0 {
					b.Include = []string{kubeOf[hook][rng.IntN(len(kubeOf[hook]))]}
					d["includeSnapshotsFrom"] = strs(b.Include)
				}
				sch = append(sch, d)
				sbs = append(sbs, b)
			}
			cfg["schedule"] = sch
			hs.AddHook(hook, 0o755, cfgJSON(cfg))
		}
		byName := map[string]c11sb{}
		for _, b := range sbs {
			byName[b.Name] = b
		}
		// one allowFailure check: the first execution of a random hook fails once
		failHook := fmt.Sprintf("h%d", rng.IntN(nH))
		hs.Plan(failHook, 0, vhk.Directive{Exit: 1})
		tickCount := map[string]int{}
		var handled []c03handled
		var hmu sync.Mutex
		var tickLog []string
		inBubble(c, func(t *testing.T) {
			sys, err := vlib.NewSys(hs, nil)
			if err != nil {
				res.Inconclusive = "assemble: " + err.Error()
				sys.StopNow()
				return
			}
			defer sys.Stop()
			sys.Pts.On("q.handler.exit", func(ev vlib.PointEvent) {
				tk, _ := ev.Args[1].(task.Task)
				if tk == nil || tk.GetType() != task_metadata.HookRun {
					return
				}
				hm := task_metadata.HookMetadataAccessor(tk)
				var idsl []string
				for _, bc := range hm.BindingContext {
					idsl = append(idsl, bc.Binding)
				}
				hmu.Lock()
				handled = append(handled, c03handled{Queue: ev.Args[0].(string), Status: fmt.Sprint(ev.Args[3]), Ctx: idsl})
				hmu.Unlock()
			})
			sys.Start()
			if !sys.Settle(100) {
				res.Inconclusive = "startup did not settle"
				return
			}
			nT := 4 + rng.IntN(12)
			for i := 0; i < nT; i++ {
				cr := crontabs[rng.IntN(len(crontabs))] // the last crontab is used by nobody
				tick(sys, cr)
				tickCount[cr]++
				tickLog = append(tickLog, cr)
				// settle between ticks so that tasks of one hook are not combined across ticks of
				// different crontabs in unpredictable ways; combining inside one tick is still possible
				if !sys.Settle(200) {
					res.Inconclusive = "did not settle after a tick"
					return
				}
			}
		})
		if res.Inconclusive != "" {
			return res
		}
		var cfgDesc []string
		for _, b := range sbs {
			cfgDesc = append(cfgDesc, fmt.Sprintf("%s{cron=%q q=%q group=%q allow=%v include=%v}", b.Name, b.Crontab, b.Queue, b.Group, b.Allow, b.Include))
		}
		var trace []string
		execs := hs.Executions()
		for i, ex := range execs {
			trace = append(trace, fmt.Sprintf("#%d %s [%s] exit=%d", i, ex.Hook, vlib.CtxSummary(ex.Contexts), exitOf(ex)))
		}
		desc := func() string {
			return "bindings: " + strings.Join(cfgDesc, " ") + "\nticks: " + strings.Join(tickLog, ", ") + "\nexecutions:\n  " + strings.Join(trace, "\n  ")
		}
		// contexts per binding in successful executions (allowFailure bindings: any execution)
		got := map[string]int{}
		for _, ex := range execs {
			ok := exitOf(ex) == 0
			for _, cx := range ex.Contexts {
				bname := fmt.Sprint(cx["binding"])
				b, known := byName[bname]
				if !known {
					if _, isKube := kubeGroup[ex.Hook][bname]; !isKube && fmt.Sprint(cx["type"]) != "Synchronization" {
						res.Violate("context-for-unknown-binding", "hook %s received a context for binding %q which it does not declare\n%s", ex.Hook, bname, desc())
					}
					continue
				}
				if b.Hook != ex.Hook {
					res.Violate("context-for-other-hooks-binding", "hook %s received a context of binding %s which belongs to %s\n%s", ex.Hook, bname, b.Hook, desc())
				}
				// shape
				wantType := "Schedule"
				if b.Group != "" {
					wantType = "Group"
				}
				if fmt.Sprint(cx["type"]) != wantType {
					res.Violate("wrong-context-type", "binding %s: context type %v, expected %s\n%s", bname, cx["type"], wantType, desc())
				}
				if b.Group != "" && fmt.Sprint(cx["groupName"]) != b.Group {
					res.Violate("wrong-group", "binding %s: groupName %v, expected %s\n%s", bname, cx["groupName"], b.Group, desc())
				}
				// snapshots keys = includeSnapshotsFrom + kubernetes bindings of the group
				want := map[string]bool{}
				for _, i := range b.Include {
					want[i] = true
				}
				if b.Group != "" {
					for kn, g := range kubeGroup[b.Hook] {
						if g == b.Group {
							want[kn] = true
						}
					}
				}
				snaps, _ := cx["snapshots"].(map[string]any)
				gotKeys := vlib.SortedKeys(snaps)
				wantKeys := vlib.SortedKeys(want)
				if strings.Join(gotKeys, ",") != strings.Join(wantKeys, ",") {
					res.Violate("wrong-snapshots-keys", "binding %s: snapshots keys %v, expected %v\n%s", bname, gotKeys, wantKeys, desc())
				}
				if ok || b.Allow {
					got[bname]++
				}
				res.Count("schedule_contexts_checked", 1)
			}
		}
		for _, b := range sbs {
			want := tickCount[b.Crontab]
			g := got[b.Name]
			if b.Group != "" {
				continue // judged per (hook, group) below
			}
			if g != want {
				cls := "missing"
				if g > want {
					cls = "duplicate"
				}
				res.Violate("tick-count/"+cls, "binding %s (crontab %q): %d Schedule contexts delivered for %d ticks\n%s", b.Name, b.Crontab, g, want, desc())
			}
		}
		// grouped bindings: adjacent Group contexts of one group are compacted (C07, the last of a run
		// survives), also across bindings; judged per (hook, group)
		type hg struct{ hook, group string }
		wantHG, gotHG := map[hg]int{}, map[hg]int{}
		for _, b := range sbs {
			if b.Group != "" {
				wantHG[hg{b.Hook, b.Group}] += tickCount[b.Crontab]
				gotHG[hg{b.Hook, b.Group}] += got[b.Name]
			}
		}
		for k, w := range wantHG {
			if g := gotHG[k]; (w > 0 && g == 0) || g > w {
				res.Violate("tick-count/grouped", "hook %s group %s: %d Group contexts delivered for %d (binding, tick) pairs\n%s", k.hook, k.group, g, w, desc())
			}
		}
		// queue placement
		for _, h := range handled {
			for _, bn := range h.Ctx {
				b, ok := byName[bn]
				if !ok {
					continue
				}
				q := b.Queue
				if q == "" {
					q = "main"
				}
				if q != h.Queue {
					res.Violate("wrong-queue", "binding %s is configured for queue %q but was handled in %q\n%s", bn, q, h.Queue, desc())
				}
			}
		}
		// allowFailure: a failed execution of strict bindings does not count above (only successful
		// executions do), so a missing retry shows up as tick-count/missing
		res.Count("ticks_injected", int64(len(tickLog)))
		res.Key = fmt.Sprintf("h%d-b%d-t%d-%d", nH, len(sbs), len(tickLog), c.Index%8)
		if c.Index < 2 {
			res.Sample = m{"bindings": cfgDesc, "ticks": tickLog, "executions": trace}
		}
		res.Replay = m{"bindings": cfgDesc, "ticks": tickLog, "executions": trace}
		return res
	})
}
