// Package vlib is the shared machinery of the runtime monitors: case runner,
// JSONL recorder, deterministic per-case PRNG, point registry, virtual-time
// helpers.
package vlib

import (
	"encoding/json"
	"fmt"
	"hash/fnv"
	"math/rand/v2"
	"os"
	"path/filepath"
	"runtime/debug"
	"sort"
	"strconv"
	"strings"
	"sync"
	"testing"
	"time"
)

// Violation is one refuted oracle clause in one case.
type Violation struct {
	Sig    string `json:"sig"`    // oracle clause / discriminating input class (matched against known_findings.jsonl)
	Detail string `json:"detail"` // human readable witness
}

// Result is what a case reports.
type Result struct {
	Violations   []Violation
	Inconclusive string           // non-empty: the case could not be decided (why)
	Key          string           // distinct-nontrivial key; empty = trivial (deciding events not observed)
	Sample       any              // a written-out description of the case (kept for the first few)
	Counters     map[string]int64 // measured counters, summed over cases
	Replay       any              // full case + trace, written to a replay file on violation
}

func (r *Result) Violate(sig, format string, args ...any) {
	r.Violations = append(r.Violations, Violation{Sig: sig, Detail: fmt.Sprintf(format, args...)})
}

func (r *Result) Count(name string, n int64) {
	if r.Counters == nil {
		r.Counters = map[string]int64{}
	}
	r.Counters[name] += n
}

// Case is the per-case context handed to a case function.
type Case struct {
	Prop  string
	Index int
	Seed  int64
	Tier  string
	Rng   *rand.Rand
	Dir   string // scratch directory of this case (removed afterwards unless violated)
	T     *testing.T
	// Frozen is set by the harness when the case's synctest bubble stopped making progress (a goroutine
	// blocked on a sync.Mutex whose holder waits for a bubble timer: virtual time cannot advance). The
	// case is then inconclusive whatever its oracle computed.
	Frozen string
}

// Env describes the worker's environment.
type Env struct {
	Seed     int64
	Tier     string
	SliceI   int
	SliceN   int
	OutDir   string
	Only     int // >=0: run only this case index (replay)
	rec      *os.File
	recMu    sync.Mutex
	WorkerID string
}

var (
	envOnce sync.Once
	env     *Env
)

func GetEnv() *Env {
	envOnce.Do(func() {
		e := &Env{Seed: 1, Tier: "quick", SliceI: 0, SliceN: 1, Only: -1}
		if v := os.Getenv("VERIF_SEED"); v != "" {
			if n, err := strconv.ParseInt(v, 10, 64); err == nil {
				e.Seed = n
			}
		}
		if v := os.Getenv("VERIF_TIER"); v == "thorough" {
			e.Tier = v
		}
		if v := os.Getenv("VERIF_SLICE"); v != "" {
			parts := strings.Split(v, "/")
			if len(parts) == 2 {
				e.SliceI, _ = strconv.Atoi(parts[0])
				e.SliceN, _ = strconv.Atoi(parts[1])
				if e.SliceN < 1 {
					e.SliceN = 1
				}
			}
		}
		if v := os.Getenv("VERIF_ONLY"); v != "" {
			e.Only, _ = strconv.Atoi(v)
		}
		e.OutDir = os.Getenv("VERIF_OUT")
		if e.OutDir == "" {
			e.OutDir, _ = os.MkdirTemp("", "verif-out-")
		}
		_ = os.MkdirAll(e.OutDir, 0o755)
		e.WorkerID = fmt.Sprintf("w%02d", e.SliceI)
		f, err := os.OpenFile(filepath.Join(e.OutDir, e.WorkerID+".jsonl"), os.O_CREATE|os.O_WRONLY|os.O_APPEND, 0o644)
		if err != nil {
			panic(err)
		}
		e.rec = f
		env = e
	})
	return env
}

// Emit appends one JSON record to the worker's log (synchronously).
func (e *Env) Emit(m map[string]any) {
	b, err := json.Marshal(m)
	if err != nil {
		b, _ = json.Marshal(map[string]any{"t": "emit_error", "err": err.Error()})
	}
	e.recMu.Lock()
	_, _ = e.rec.Write(append(b, '\n'))
	e.recMu.Unlock()
}

func hash64(parts ...string) uint64 {
	h := fnv.New64a()
	for _, p := range parts {
		_, _ = h.Write([]byte(p))
		_, _ = h.Write([]byte{0})
	}
	return h.Sum64()
}

// NewRng returns the deterministic PRNG of (property, seed, case index, stream).
func NewRng(prop string, seed int64, index int, stream string) *rand.Rand {
	return rand.New(rand.NewPCG(hash64(prop, strconv.FormatInt(seed, 10), stream), uint64(index)))
}

// Pick returns quick or thorough depending on the tier.
func (e *Env) Pick(quick, thorough int) int {
	if e.Tier == "thorough" {
		return thorough
	}
	return quick
}

// RunCases runs cases [0,n) of this worker's slice through fn. Every case is
// announced in the log before it runs and closed with an explicit end record;
// a worker that dies leaves an unclosed case, which the driver reports.
func RunCases(t *testing.T, prop, group string, n int, fn func(c *Case) Result) {
	e := GetEnv()
	if g := os.Getenv("VERIF_ONLY_GROUP"); g != "" && g != group {
		return
	}
	e.Emit(map[string]any{"t": "group_begin", "prop": prop, "group": group, "n": n, "seed": e.Seed, "tier": e.Tier, "slice": fmt.Sprintf("%d/%d", e.SliceI, e.SliceN)})
	for i := 0; i < n; i++ {
		if e.Only >= 0 {
			if i != e.Only {
				continue
			}
		} else if i%e.SliceN != e.SliceI {
			continue
		}
		runOne(t, e, prop, group, i, fn)
	}
	e.Emit(map[string]any{"t": "group_end", "prop": prop, "group": group})
}

func runOne(t *testing.T, e *Env, prop, group string, i int, fn func(c *Case) Result) {
	dir := filepath.Join(e.OutDir, "cases", fmt.Sprintf("%s-%s-%d", prop, group, i))
	_ = os.MkdirAll(dir, 0o755)
	c := &Case{Prop: prop, Index: i, Seed: e.Seed, Tier: e.Tier, Rng: NewRng(prop, e.Seed, i, group), Dir: dir, T: t}
	e.Emit(map[string]any{"t": "case_begin", "prop": prop, "group": group, "case": i})
	start := time.Now()
	var res Result
	leaksBefore := BubbleLeaks.Load()
	func() {
		defer func() {
			if r := recover(); r != nil {
				res.Violate("panic/"+group, "panic in case: %v\n%s", r, debug.Stack())
			}
		}()
		res = fn(c)
	}()
	if c.Frozen != "" {
		res = Result{Inconclusive: c.Frozen}
	}
	if d := BubbleLeaks.Load() - leaksBefore; d > 0 {
		res.Count("bubbles_left_goroutines_behind_at_teardown", d)
	}
	verdict := "held"
	if res.Inconclusive != "" {
		verdict = "inconclusive"
	}
	if len(res.Violations) > 0 {
		verdict = "violated"
	}
	rec := map[string]any{
		"t": "case_end", "prop": prop, "group": group, "case": i, "verdict": verdict,
		"key": res.Key, "wall_ms": time.Since(start).Milliseconds(),
	}
	if res.Inconclusive != "" {
		rec["inconclusive"] = res.Inconclusive
	}
	if len(res.Counters) > 0 {
		rec["counters"] = res.Counters
	}
	if res.Sample != nil {
		rec["sample"] = res.Sample
	}
	if len(res.Violations) > 0 {
		rec["violations"] = res.Violations
		rp := map[string]any{"prop": prop, "group": group, "case": i, "seed": e.Seed, "tier": e.Tier, "violations": res.Violations, "case_data": res.Replay, "sample": res.Sample}
		b, _ := json.MarshalIndent(rp, "", " ")
		rpath := filepath.Join(e.OutDir, fmt.Sprintf("replay-%s-%s-%d.json", prop, group, i))
		_ = os.WriteFile(rpath, b, 0o644)
		rec["replay"] = rpath
	} else {
		_ = os.RemoveAll(dir)
	}
	e.Emit(rec)
}

// SortedKeys returns the sorted keys of a map[string]T.
func SortedKeys[T any](m map[string]T) []string {
	ks := make([]string, 0, len(m))
	for k := range m {
		ks = append(ks, k)
	}
	sort.Strings(ks)
	return ks
}

// JSON renders v compactly (for details and keys).
func JSON(v any) string {
	b, err := json.Marshal(v)
	if err != nil {
		return fmt.Sprintf("<json error %v>", err)
	}
	return string(b)
}
