package vlib

import (
	"bufio"
	"encoding/json"
	"fmt"
	"os"
	"path/filepath"
	"sort"
	"strings"

	"verif/harness/vhk"
)

// HookSet is a generated hooks directory plus the control/log directory of the
// vhook agent.
type HookSet struct {
	Dir  string // $VHOOK_DIR
	Root string // hooks directory
	Tmp  string // operator temp dir
}

// NewHookSet creates <caseDir>/{ctl,hooks,tmp} and points VHOOK_DIR at ctl.
// rootName is the base name of the hooks directory.
func NewHookSet(caseDir, rootName string) *HookSet {
	h := &HookSet{Dir: filepath.Join(caseDir, "ctl"), Root: filepath.Join(caseDir, rootName), Tmp: filepath.Join(caseDir, "tmp")}
	for _, d := range []string{h.Dir, h.Root, h.Tmp, filepath.Join(h.Dir, "config"), filepath.Join(h.Dir, "plan"), filepath.Join(h.Dir, "seq"), filepath.Join(h.Dir, "exec")} {
		if err := os.MkdirAll(d, 0o755); err != nil {
			panic(err)
		}
	}
	_ = os.WriteFile(filepath.Join(h.Dir, "root"), []byte(h.Root), 0o644)
	_ = os.Setenv("VHOOK_DIR", h.Dir)
	return h
}

func vhookBin() string {
	if v := os.Getenv("VERIF_VHOOK"); v != "" {
		return v
	}
	return "/verif/.build/vhook"
}

// AddHook writes the wrapper script for a hook and its --config output.
func (h *HookSet) AddHook(rel string, mode os.FileMode, config string) {
	h.AddFile(rel, mode, "#!/bin/sh\nexec "+vhookBin()+" \"$0\" \"$@\"\n")
	h.SetConfig(rel, config)
}

func (h *HookSet) SetConfig(rel, config string) {
	_ = os.WriteFile(filepath.Join(h.Dir, "config", vhk.Key(rel)+".out"), []byte(config), 0o644)
}

func (h *HookSet) SetConfigExit(rel string, code int) {
	_ = os.WriteFile(filepath.Join(h.Dir, "config", vhk.Key(rel)+".exit"), []byte(fmt.Sprint(code)), 0o644)
}

// AddFile writes any file below the hooks root.
func (h *HookSet) AddFile(rel string, mode os.FileMode, content string) {
	p := filepath.Join(h.Root, rel)
	if err := os.MkdirAll(filepath.Dir(p), 0o755); err != nil {
		panic(err)
	}
	if err := os.WriteFile(p, []byte(content), 0o644); err != nil {
		panic(err)
	}
	if err := os.Chmod(p, mode); err != nil {
		panic(err)
	}
}

// Plan sets the directive of the n-th normal execution of a hook (n<0: default).
func (h *HookSet) Plan(rel string, n int, d vhk.Directive) {
	dir := filepath.Join(h.Dir, "plan", vhk.Key(rel))
	_ = os.MkdirAll(dir, 0o755)
	name := "default.json"
	if n >= 0 {
		name = fmt.Sprintf("%d.json", n)
	}
	b, _ := json.Marshal(d)
	_ = os.WriteFile(filepath.Join(dir, name), b, 0o644)
}

// HookRec is one line of the agent's log.
type HookRec struct {
	Kind       string            `json:"kind"` // config begin end
	Hook       string            `json:"hook"`
	N          int               `json:"n"`
	Pid        int               `json:"pid"`
	Cwd        string            `json:"cwd"`
	Argv       []string          `json:"argv"`
	Env        map[string]string `json:"env"`
	Sizes      map[string]int64  `json:"sizes"`
	CtxFile    string            `json:"ctx_file"`
	CtxErr     string            `json:"ctx_err"`
	TmpListing []string          `json:"tmp_listing"`
	StartMono  int64             `json:"start_mono"`
	EndMono    int64             `json:"end_mono"`
	Mono       int64             `json:"mono"`
	Exit       int               `json:"exit"`
	Kill       bool              `json:"kill"`
}

func (h *HookSet) Log() []HookRec {
	f, err := os.Open(filepath.Join(h.Dir, "log.jsonl"))
	if err != nil {
		return nil
	}
	defer f.Close()
	var res []HookRec
	sc := bufio.NewScanner(f)
	sc.Buffer(make([]byte, 1<<20), 1<<26)
	for sc.Scan() {
		var r HookRec
		if json.Unmarshal(sc.Bytes(), &r) == nil {
			res = append(res, r)
		}
	}
	return res
}

// Execution is a normal (non --config) run of a hook as seen by the agent.
type Execution struct {
	Hook     string
	N        int
	Begin    HookRec
	End      *HookRec
	CtxRaw   []byte
	Contexts []map[string]any // parsed binding context array (nil when unparsable)
	CtxErr   error
}

// Executions returns the normal runs in the order their begin records were
// written (log order).
func (h *HookSet) Executions() []*Execution {
	var res []*Execution
	idx := map[string]*Execution{}
	for _, r := range h.Log() {
		switch r.Kind {
		case "begin":
			ex := &Execution{Hook: r.Hook, N: r.N, Begin: r}
			ex.CtxRaw, _ = os.ReadFile(r.CtxFile)
			ex.CtxErr = json.Unmarshal(ex.CtxRaw, &ex.Contexts)
			res = append(res, ex)
			idx[fmt.Sprintf("%s#%d", r.Hook, r.N)] = ex
		case "end":
			if ex := idx[fmt.Sprintf("%s#%d", r.Hook, r.N)]; ex != nil {
				rr := r
				ex.End = &rr
			}
		}
	}
	return res
}

// ConfigCalls returns hook -> number of --config invocations.
func (h *HookSet) ConfigCalls() map[string]int {
	res := map[string]int{}
	for _, r := range h.Log() {
		if r.Kind == "config" {
			res[r.Hook]++
		}
	}
	return res
}

// TmpFiles lists the operator temp dir.
func (h *HookSet) TmpFiles() []string {
	ents, _ := os.ReadDir(h.Tmp)
	var res []string
	for _, e := range ents {
		res = append(res, e.Name())
	}
	sort.Strings(res)
	return res
}

// CtxSummary renders the contexts of an execution compactly: binding/type[/watchEvent or group].
func CtxSummary(cs []map[string]any) string {
	var parts []string
	for _, c := range cs {
		s := fmt.Sprint(c["binding"])
		if t, ok := c["type"]; ok {
			s += "/" + fmt.Sprint(t)
		}
		if w, ok := c["watchEvent"]; ok {
			s += "/" + fmt.Sprint(w)
		}
		if g, ok := c["groupName"]; ok {
			s += "/" + fmt.Sprint(g)
		}
		parts = append(parts, s)
	}
	return strings.Join(parts, ",")
}
