package vlib

import (
	"sync"
	"sync/atomic"
	"time"

	"github.com/flant/shell-operator/pkg/utils/verifhook"
)

// PointEvent is one recorded hit of a verifhook point.
type PointEvent struct {
	Seq  int64
	Name string
	Args []any
	VT   time.Time // time.Now() at the hit (virtual inside a synctest bubble)
}

// Points is the per-case registry behind verifhook.Point. Handlers run on the
// goroutine that hit the point and may block it (rendezvous). All points sit
// between lock regions of the code under test, so blocking there only produces
// schedules the Go scheduler could produce by itself.
type Points struct {
	seq      atomic.Int64
	mu       sync.Mutex
	handlers map[string][]func(ev PointEvent)
	log      []PointEvent
	record   map[string]bool
	recAll   bool
}

// InstallPoints makes p the process-wide handler. Call Uninstall at case end.
func InstallPoints() *Points {
	p := &Points{handlers: map[string][]func(ev PointEvent){}, record: map[string]bool{}}
	verifhook.Set(p.dispatch)
	return p
}

func (p *Points) Uninstall() { verifhook.Set(nil) }

// NextSeq hands out a number from the same counter the points use, so harness
// actions can be ordered against point hits.
func (p *Points) NextSeq() int64 { return p.seq.Add(1) }

// Progress counts point hits of the whole process; the per-bubble freeze
// detector (checks.inBubble) uses it to tell a busy bubble from a frozen one.
var Progress atomic.Int64

// BubbleLeaks counts bubbles whose body returned while goroutines of the system under test were still
// durably blocked (reported by synctest as a deadlock; see checks.inBubble).
var BubbleLeaks atomic.Int64

func (p *Points) dispatch(name string, args ...any) {
	Progress.Add(1)
	ev := PointEvent{Seq: p.seq.Add(1), Name: name, Args: args, VT: time.Now()}
	p.mu.Lock()
	if p.recAll || p.record[name] {
		p.log = append(p.log, ev)
	}
	hs := p.handlers[name]
	p.mu.Unlock()
	for _, h := range hs {
		h(ev)
	}
}

// On registers a handler for a point.
func (p *Points) On(name string, h func(ev PointEvent)) {
	p.mu.Lock()
	p.handlers[name] = append(p.handlers[name], h)
	p.mu.Unlock()
}

// Clear removes all handlers of a point.
func (p *Points) Clear(name string) {
	p.mu.Lock()
	delete(p.handlers, name)
	p.mu.Unlock()
}

// Record enables logging of the named points ("*" = all).
func (p *Points) Record(names ...string) {
	p.mu.Lock()
	for _, n := range names {
		if n == "*" {
			p.recAll = true
		}
		p.record[n] = true
	}
	p.mu.Unlock()
}

// Log returns a copy of the recorded events.
func (p *Points) Log() []PointEvent {
	p.mu.Lock()
	defer p.mu.Unlock()
	return append([]PointEvent(nil), p.log...)
}

// Gate is a one-shot rendezvous: the first goroutine that reaches it (and for
// which match returns true) parks until Release is called.
type Gate struct {
	Arrived chan struct{} // closed when a goroutine parked
	release chan struct{}
	once    sync.Once
	armed   atomic.Bool
	hit     atomic.Bool
}

// NewGate must be called inside the bubble when used with synctest (channels
// belong to the bubble that created them).
func NewGate() *Gate {
	g := &Gate{Arrived: make(chan struct{}), release: make(chan struct{})}
	g.armed.Store(true)
	return g
}

// Park is called from a point handler.
func (g *Gate) Park() {
	if !g.armed.CompareAndSwap(true, false) {
		return
	}
	g.hit.Store(true)
	close(g.Arrived)
	<-g.release
}

func (g *Gate) Hit() bool { return g.hit.Load() }

// Release lets the parked goroutine continue (idempotent; also disarms a gate
// nobody reached).
func (g *Gate) Release() {
	g.armed.Store(false)
	g.once.Do(func() { close(g.release) })
}
