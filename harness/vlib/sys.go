package vlib

import (
	"context"
	"fmt"
	"os"
	"path/filepath"
	"runtime"
	"sort"
	"strings"
	"sync/atomic"
	"syscall"
	"testing/synctest"
	"time"
	"unsafe"

	"github.com/flant/kube-client/fake"
	kubeeventsmanager "github.com/flant/shell-operator/pkg/kube_events_manager"
	shell_operator "github.com/flant/shell-operator/pkg/shell-operator"
	"github.com/flant/shell-operator/pkg/task"
	"github.com/flant/shell-operator/pkg/task/queue"
)

// Sys is a complete shell-operator assembled on a fake cluster and a generated
// hooks directory. It must be created and used inside a synctest bubble.
type Sys struct {
	HS      *HookSet
	Cluster *fake.Cluster
	Op      *shell_operator.ShellOperator
	Pts     *Points
	cancel  context.CancelFunc
	stopped bool
	onStop  []func()
	done    chan struct{}
}

// OnStop registers a function that runs at the beginning of Stop/StopNow (release gates there).
func (s *Sys) OnStop(f func()) { s.onStop = append(s.onStop, f) }

// Done is closed when the operator is being torn down (harness goroutines must exit then).
func (s *Sys) Done() <-chan struct{} { return s.done }

func (s *Sys) runOnStop() {
	for _, f := range s.onStop {
		f()
	}
	s.onStop = nil
	if s.done != nil {
		select {
		case <-s.done:
		default:
			close(s.done)
		}
	}
}

func RepoDir() string {
	if v := os.Getenv("VERIF_REPO"); v != "" {
		return v
	}
	return "/repo"
}

// NewSys assembles (VerifAssemble) but does not start the operator.
// cluster may be nil (a fresh fake cluster is created).
// SyncYieldPoint is hit by FactoryStore.Start right before its cache-sync poll (argument: informer.HasSynced).
const SyncYieldPoint = "fs.start.beforeSyncPoll"

// SyncYieldGaveUp counts polls that were entered although the yield loop was tried.
var SyncYieldGaveUp atomic.Int64

func NewSys(hs *HookSet, cluster *fake.Cluster) (*Sys, error) {
	// a fresh store, not Reset(): a bubble abandoned as frozen may still hold the old store's mutex
	kubeeventsmanager.DefaultFactoryStore = kubeeventsmanager.NewFactoryStore()
	if cluster == nil {
		cluster = fake.NewFakeCluster(fake.ClusterVersionV127)
	}
	ctx, cancel := context.WithCancel(context.Background())
	s := &Sys{HS: hs, Cluster: cluster, cancel: cancel, done: make(chan struct{})}
	s.Pts = InstallPoints()
	// FactoryStore.Start holds its mutex across the 100 ms cache-sync poll. A goroutine waiting for that
	// mutex is not "durably blocked", so virtual time could never reach the poll's timer: the bubble would
	// freeze. Yield until the (fake, timer-free) informer has synced, so that the poll's immediate check
	// succeeds and no timer is armed while the mutex is held. Checks that want the poll itself (C17) remove
	// this handler with Pts.Clear(SyncYieldPoint).
	s.Pts.On(SyncYieldPoint, func(ev PointEvent) {
		if synced, ok := ev.Args[0].(func() bool); ok {
			for i := 0; i < 100000 && !synced(); i++ {
				runtime.Gosched()
			}
			if !synced() {
				SyncYieldGaveUp.Add(1)
			}
		}
	})
	op, err := shell_operator.VerifAssemble(shell_operator.VerifConfig{
		Ctx:            ctx,
		KubeClient:     cluster.Client,
		HooksDir:       hs.Root,
		TempDir:        hs.Tmp,
		CAPath:         filepath.Join(RepoDir(), "pkg/webhook/admission/testdata/demo-certs/ca.pem"),
		ServerCertPath: "/nonexistent/verif/tls.crt",
		Namespace:      "default",
	})
	s.Op = op
	if err != nil {
		return s, err
	}
	return s, nil
}

func (s *Sys) Start() { s.Op.VerifStart() }

// QueueNames returns the names of all queues, sorted.
func (s *Sys) QueueNames() []string {
	var names []string
	s.Op.TaskQueues.Iterate(func(q *queue.TaskQueue) { names = append(names, q.Name) })
	sort.Strings(names)
	return names
}

// QueueIDs returns the ids of the tasks in a queue.
func (s *Sys) QueueTasks(name string) []task.Task {
	q := s.Op.TaskQueues.GetByName(name)
	if q == nil {
		return nil
	}
	var res []task.Task
	q.Iterate(func(t task.Task) { res = append(res, t) })
	return res
}

func (s *Sys) stateSig() string {
	var sb strings.Builder
	for _, n := range s.QueueNames() {
		ts := s.QueueTasks(n)
		fmt.Fprintf(&sb, "%s:%d", n, len(ts))
		if len(ts) > 0 && ts[0] != nil {
			fmt.Fprintf(&sb, "(%s/%d)", ts[0].GetId(), ts[0].GetFailureCount())
		}
		sb.WriteString(";")
	}
	fmt.Fprintf(&sb, "log:%d", s.hookLogSize())
	return sb.String()
}

func (s *Sys) hookLogSize() int64 {
	st, err := os.Stat(filepath.Join(s.HS.Dir, "log.jsonl"))
	if err != nil {
		return 0
	}
	return st.Size()
}

// Settle advances virtual time in 2 s steps until all queues are empty and
// queue contents and the number of hook invocations did not change over one
// full step. It returns false if that did not happen within maxSteps steps
// (e.g. a hook that keeps failing).
func (s *Sys) Settle(maxSteps int) bool {
	prev := ""
	for i := 0; i < maxSteps; i++ {
		synctest.Wait()
		cur := s.stateSig()
		if cur == prev && s.QueuesEmpty() {
			return true
		}
		prev = cur
		time.Sleep(2 * time.Second)
	}
	synctest.Wait()
	return false
}

// QueuesEmpty reports whether all queues are empty.
func (s *Sys) QueuesEmpty() bool {
	for _, n := range s.QueueNames() {
		if len(s.QueueTasks(n)) > 0 {
			return false
		}
	}
	return true
}

// Advance sleeps d of virtual time and waits for quiescence.
func (s *Sys) Advance(d time.Duration) {
	time.Sleep(d)
	synctest.Wait()
}

// Stop tears the operator down so that the bubble can end: it first lets the
// system settle (a cancel during an informer's cache-sync poll crashes the
// operator, which is C17's business and nobody else's), then shuts down,
// cancels the root context and drains the event channels until every goroutine
// is gone.
func (s *Sys) Stop() {
	if s.stopped {
		return
	}
	s.stopped = true
	s.runOnStop()
	s.Settle(20)
	s.Pts.Uninstall()
	if s.Op != nil && s.Op.TaskQueues != nil && s.Op.ScheduleManager != nil && s.Op.KubeEventsManager != nil {
		s.Op.Shutdown()
	}
	s.cancel()
	s.drain()
}

// StopNow tears down without settling first (used by C17 after its own stop).
func (s *Sys) StopNow() {
	if s.stopped {
		return
	}
	s.stopped = true
	s.runOnStop()
	s.Pts.Uninstall()
	s.cancel()
	s.drain()
}

func (s *Sys) drain() {
	if s.Op == nil || s.Op.KubeEventsManager == nil || s.Op.ScheduleManager == nil {
		return
	}
	kch := s.Op.KubeEventsManager.Ch()
	sch := s.Op.ScheduleManager.Ch()
	for i := 0; i < 20; i++ {
		synctest.Wait()
		drained := false
		for {
			select {
			case <-kch:
				drained = true
				continue
			case <-sch:
				drained = true
				continue
			default:
			}
			break
		}
		if !drained && i > 2 {
			break
		}
		time.Sleep(500 * time.Millisecond)
	}
	synctest.Wait()
}

// MonoNs reads CLOCK_MONOTONIC (system-wide, not the bubble's fake clock).
func MonoNs() int64 {
	var ts syscall.Timespec
	_, _, _ = syscall.Syscall(syscall.SYS_CLOCK_GETTIME, 1, uintptr(unsafe.Pointer(&ts)), 0)
	return ts.Sec*1e9 + ts.Nsec
}
