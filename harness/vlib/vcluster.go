package vlib

import (
	"context"
	"fmt"
	"sort"
	"strings"
	"sync"
	"sync/atomic"

	corev1 "k8s.io/api/core/v1"
	"k8s.io/apimachinery/pkg/api/meta"
	metav1 "k8s.io/apimachinery/pkg/apis/meta/v1"
	"k8s.io/apimachinery/pkg/apis/meta/v1/unstructured"
	"k8s.io/apimachinery/pkg/fields"
	"k8s.io/apimachinery/pkg/labels"
	"k8s.io/apimachinery/pkg/runtime"
	"k8s.io/apimachinery/pkg/runtime/schema"
	"k8s.io/apimachinery/pkg/watch"
	dynfake "k8s.io/client-go/dynamic/fake"
	k8sfake "k8s.io/client-go/kubernetes/fake"
	clienttesting "k8s.io/client-go/testing"

	"github.com/flant/kube-client/fake"
)

var CMGVR = schema.GroupVersionResource{Version: "v1", Resource: "configmaps"}

// ObjState is one state of an object in the ground truth.
type ObjState struct {
	Gen     int               // unique generation id, also stored in the payload (data.gen)
	Labels  map[string]string // nil when deleted
	Data    map[string]any    // extra payload (spec-like), copied into the object
	Deleted bool
}

// VCluster is the kube-client fake cluster plus (a) the API-server semantics
// shell-operator relies on and the fake lacks: field selectors on list and
// watch, label selectors on watch with transition semantics (an object that
// stops matching is reported DELETED, one that starts matching ADDED); (b) the
// ground truth: per object the ordered history of states with unique
// generation ids; (c) fault injectors (close watches, expire watches).
type VCluster struct {
	*fake.Cluster
	mu            sync.Mutex
	gen           int
	History       map[string][]ObjState          // "ns/name" -> states
	NsHist        map[string][]map[string]string // namespace -> label sets over time (nil = deleted)
	NsHistGen     map[string][]int               // namespace -> value of the generation counter when that entry was written
	watches       []*filterWatch
	WatchesOpened int
	listHook      atomic.Pointer[func(resource, namespace string)]
	listFault     atomic.Pointer[func(resource, namespace string) error]
	stalled       atomic.Bool // while set, open watches deliver nothing (an outage that ends with ExpireWatches)
}

// OnList installs a function that is called (on the caller's goroutine) at the start of every list request
// of the dynamic client; it may block (a slow API round-trip). nil removes it.
func (vc *VCluster) OnList(f func(resource, namespace string)) {
	if f == nil {
		vc.listHook.Store(nil)
		return
	}
	vc.listHook.Store(&f)
}

// FailList installs a function asked at every list request of the dynamic client; a non-nil error is
// returned to the caller instead of the list (a transient API failure). It must not block. nil removes it.
func (vc *VCluster) FailList(f func(resource, namespace string) error) {
	if f == nil {
		vc.listFault.Store(nil)
		return
	}
	vc.listFault.Store(&f)
}

// NsLabelsAtGen returns the labels the namespace had when generation gen was written (ok=false: the namespace
// did not exist then).
func (vc *VCluster) NsLabelsAtGen(name string, gen int) (map[string]string, bool) {
	vc.mu.Lock()
	defer vc.mu.Unlock()
	var cur map[string]string
	for i, l := range vc.NsHist[name] {
		if i < len(vc.NsHistGen[name]) && vc.NsHistGen[name][i] < gen {
			cur = l
		}
	}
	return cur, cur != nil
}

// LeftWithNamespace reports whether the state with generation gen (a deletion) is part of its namespace
// leaving: the next entry of the namespace's history was written at or after gen and everything written in the
// namespace in between is a deletion too (DeleteNamespace removes the objects, then the namespace).
func (vc *VCluster) LeftWithNamespace(ns string, gen int) bool {
	vc.mu.Lock()
	defer vc.mu.Unlock()
	for i := range vc.NsHist[ns] {
		if i >= len(vc.NsHistGen[ns]) || vc.NsHistGen[ns][i] < gen {
			continue
		}
		upTo := vc.NsHistGen[ns][i]
		for key, h := range vc.History {
			if !strings.HasPrefix(key, ns+"/") {
				continue
			}
			for _, st := range h {
				if st.Gen >= gen && st.Gen <= upTo && !st.Deleted {
					return false
				}
			}
		}
		return true
	}
	return false
}

// StallWatches makes every open watch silently drop what happens in the cluster (on=true) until it is
// switched off again; together with ExpireWatches it models a watch outage that ends with 410 Gone:
// the reflector relists and learns about deletions only from the difference to its store.
func (vc *VCluster) StallWatches(on bool) { vc.stalled.Store(on) }

func NewVCluster() *VCluster {
	vc := &VCluster{Cluster: fake.NewFakeCluster(fake.ClusterVersionV127), History: map[string][]ObjState{}, NsHist: map[string][]map[string]string{}, NsHistGen: map[string][]int{}}
	dyn := vc.Client.Dynamic().(*dynfake.FakeDynamicClient)
	dyn.PrependReactor("list", "*", func(action clienttesting.Action) (bool, runtime.Object, error) {
		la, ok := action.(clienttesting.ListActionImpl)
		if !ok {
			return false, nil, nil
		}
		fs := la.GetListRestrictions().Fields
		if fs == nil || fs.Empty() {
			return false, nil, nil
		}
		obj, err := dyn.Tracker().List(la.GetResource(), la.GetKind(), la.GetNamespace())
		if err != nil {
			return true, nil, err
		}
		items, err := meta.ExtractList(obj)
		if err != nil {
			return true, nil, err
		}
		var kept []runtime.Object
		for _, it := range items {
			if fieldsMatch(fs, it) {
				kept = append(kept, it)
			}
		}
		if err := meta.SetList(obj, kept); err != nil {
			return true, nil, err
		}
		return true, obj, nil
	})
	dyn.PrependReactor("list", "*", func(action clienttesting.Action) (bool, runtime.Object, error) {
		if f := vc.listHook.Load(); f != nil {
			(*f)(action.GetResource().Resource, action.GetNamespace())
		}
		if f := vc.listFault.Load(); f != nil {
			if err := (*f)(action.GetResource().Resource, action.GetNamespace()); err != nil {
				return true, nil, err
			}
		}
		return false, nil, nil
	})
	dyn.PrependWatchReactor("*", func(action clienttesting.Action) (bool, watch.Interface, error) {
		wa, ok := action.(clienttesting.WatchActionImpl)
		if !ok {
			return false, nil, nil
		}
		under, err := dyn.Tracker().Watch(wa.GetResource(), wa.GetNamespace())
		if err != nil {
			return true, nil, err
		}
		// initial match state from the tracker's content
		fw := newFilterWatch(under, wa.GetWatchRestrictions().Labels, wa.GetWatchRestrictions().Fields)
		kind := schema.GroupVersionKind{Version: wa.GetResource().Version, Kind: "ConfigMap"}
		if gvkList, err := dyn.Tracker().List(wa.GetResource(), kind, wa.GetNamespace()); err == nil {
			if items, err := meta.ExtractList(gvkList); err == nil {
				for _, it := range items {
					fw.state[objKey(it)] = fw.matches(it)
				}
			}
		}
		fw.stall = &vc.stalled
		vc.mu.Lock()
		vc.watches = append(vc.watches, fw)
		vc.WatchesOpened++
		vc.mu.Unlock()
		go fw.run()
		return true, fw, nil
	})
	cs := vc.Client.Interface.(*k8sfake.Clientset)
	cs.PrependWatchReactor("namespaces", func(action clienttesting.Action) (bool, watch.Interface, error) {
		wa, ok := action.(clienttesting.WatchActionImpl)
		if !ok {
			return false, nil, nil
		}
		under, err := cs.Tracker().Watch(wa.GetResource(), wa.GetNamespace())
		if err != nil {
			return true, nil, err
		}
		fw := newFilterWatch(under, wa.GetWatchRestrictions().Labels, wa.GetWatchRestrictions().Fields)
		if lst, err := cs.Tracker().List(wa.GetResource(), schema.GroupVersionKind{Version: "v1", Kind: "Namespace"}, ""); err == nil {
			if items, err := meta.ExtractList(lst); err == nil {
				for _, it := range items {
					fw.state[objKey(it)] = fw.matches(it)
				}
			}
		}
		vc.mu.Lock()
		vc.watches = append(vc.watches, fw)
		vc.WatchesOpened++
		vc.mu.Unlock()
		go fw.run()
		return true, fw, nil
	})
	return vc
}

func objKey(o runtime.Object) string {
	a, err := meta.Accessor(o)
	if err != nil {
		return ""
	}
	return a.GetNamespace() + "/" + a.GetName()
}

func fieldsMatch(fs fields.Selector, o runtime.Object) bool {
	if fs == nil || fs.Empty() {
		return true
	}
	a, err := meta.Accessor(o)
	if err != nil {
		return false
	}
	return fs.Matches(fields.Set{"metadata.name": a.GetName(), "metadata.namespace": a.GetNamespace()})
}

type filterWatch struct {
	under  watch.Interface
	labels labels.Selector
	fields fields.Selector
	out    chan watch.Event
	stop   chan struct{}
	once   sync.Once
	state  map[string]bool
	inject chan watch.Event
	stall  *atomic.Bool
}

func newFilterWatch(under watch.Interface, l labels.Selector, f fields.Selector) *filterWatch {
	return &filterWatch{under: under, labels: l, fields: f, out: make(chan watch.Event, 200), stop: make(chan struct{}), state: map[string]bool{}, inject: make(chan watch.Event, 4)}
}

func (w *filterWatch) matches(o runtime.Object) bool {
	a, err := meta.Accessor(o)
	if err != nil {
		return false
	}
	if w.labels != nil && !w.labels.Empty() && !w.labels.Matches(labels.Set(a.GetLabels())) {
		return false
	}
	return fieldsMatch(w.fields, o)
}

func (w *filterWatch) run() {
	defer close(w.out)
	for {
		select {
		case <-w.stop:
			w.under.Stop()
			return
		case ev := <-w.inject:
			select {
			case w.out <- ev:
			case <-w.stop:
				w.under.Stop()
				return
			}
		case ev, ok := <-w.under.ResultChan():
			if !ok {
				return
			}
			if w.stall != nil && w.stall.Load() {
				continue
			}
			key := objKey(ev.Object)
			prev := w.state[key]
			var outEv *watch.Event
			switch ev.Type {
			case watch.Added, watch.Modified:
				now := w.matches(ev.Object)
				w.state[key] = now
				switch {
				case !prev && now:
					outEv = &watch.Event{Type: watch.Added, Object: ev.Object}
				case prev && now:
					outEv = &watch.Event{Type: watch.Modified, Object: ev.Object}
				case prev && !now:
					outEv = &watch.Event{Type: watch.Deleted, Object: ev.Object}
				}
			case watch.Deleted:
				delete(w.state, key)
				if prev {
					outEv = &watch.Event{Type: watch.Deleted, Object: ev.Object}
				}
			default:
				outEv = &ev
			}
			if outEv != nil {
				select {
				case w.out <- *outEv:
				case <-w.stop:
					w.under.Stop()
					return
				}
			}
		}
	}
}

func (w *filterWatch) Stop()                          { w.once.Do(func() { close(w.stop) }) }
func (w *filterWatch) ResultChan() <-chan watch.Event { return w.out }

// CloseWatches ends every open watch: reflectors re-establish them.
func (vc *VCluster) CloseWatches() int {
	vc.mu.Lock()
	ws := vc.watches
	vc.watches = nil
	vc.mu.Unlock()
	for _, w := range ws {
		w.Stop()
	}
	return len(ws)
}

// ExpireWatches answers every open watch with 410 Gone: reflectors relist,
// which re-delivers unchanged objects to the informers' handlers.
func (vc *VCluster) ExpireWatches() int {
	vc.mu.Lock()
	ws := vc.watches
	vc.watches = nil
	vc.mu.Unlock()
	for _, w := range ws {
		st := &metav1.Status{Status: metav1.StatusFailure, Reason: metav1.StatusReasonExpired, Code: 410, Message: "too old resource version (injected)"}
		select {
		case w.inject <- watch.Event{Type: watch.Error, Object: st}:
		default:
		}
	}
	return len(ws)
}

// ---- ground truth mutations

func (vc *VCluster) nextGen() int {
	vc.gen++
	return vc.gen
}

// BuildCM renders the ConfigMap-like object of a state.
func BuildCM(ns, name string, st ObjState) *unstructured.Unstructured {
	lbl := map[string]any{}
	for k, v := range st.Labels {
		lbl[k] = v
	}
	o := map[string]any{
		"apiVersion": "v1", "kind": "ConfigMap",
		"metadata": map[string]any{"name": name, "namespace": ns, "labels": lbl},
		"data":     map[string]any{"gen": fmt.Sprint(st.Gen)},
	}
	for k, v := range st.Data {
		o[k] = v
	}
	return &unstructured.Unstructured{Object: o}
}

func copyLabels(l map[string]string) map[string]string {
	r := map[string]string{}
	for k, v := range l {
		r[k] = v
	}
	return r
}

// EnsureNamespace creates the namespace (typed tracker) if it is not there.
func (vc *VCluster) EnsureNamespace(name string, lbls map[string]string) {
	vc.mu.Lock()
	h := vc.NsHist[name]
	exists := len(h) > 0 && h[len(h)-1] != nil
	vc.mu.Unlock()
	if exists {
		return
	}
	ns := &corev1.Namespace{ObjectMeta: metav1.ObjectMeta{Name: name, Labels: copyLabels(lbls)}}
	_, err := vc.Client.CoreV1().Namespaces().Create(context.TODO(), ns, metav1.CreateOptions{})
	if err != nil {
		panic(err)
	}
	vc.mu.Lock()
	vc.NsHist[name] = append(vc.NsHist[name], copyLabels(lbls))
	vc.NsHistGen[name] = append(vc.NsHistGen[name], vc.gen)
	vc.mu.Unlock()
}

func (vc *VCluster) RelabelNamespace(name string, lbls map[string]string) {
	ns := &corev1.Namespace{ObjectMeta: metav1.ObjectMeta{Name: name, Labels: copyLabels(lbls)}}
	_, err := vc.Client.CoreV1().Namespaces().Update(context.TODO(), ns, metav1.UpdateOptions{})
	if err != nil {
		panic(err)
	}
	vc.mu.Lock()
	vc.NsHist[name] = append(vc.NsHist[name], copyLabels(lbls))
	vc.NsHistGen[name] = append(vc.NsHistGen[name], vc.gen)
	vc.mu.Unlock()
}

// DeleteNamespace deletes the objects inside (as the API server would) and then the namespace.
func (vc *VCluster) DeleteNamespace(name string) {
	for _, k := range vc.LiveKeys() {
		if strings.HasPrefix(k, name+"/") {
			vc.Delete(name, strings.TrimPrefix(k, name+"/"))
		}
	}
	_ = vc.Client.CoreV1().Namespaces().Delete(context.TODO(), name, metav1.DeleteOptions{})
	vc.mu.Lock()
	vc.NsHist[name] = append(vc.NsHist[name], nil)
	vc.NsHistGen[name] = append(vc.NsHistGen[name], vc.gen)
	vc.mu.Unlock()
}

func (vc *VCluster) NsLabels(name string) (map[string]string, bool) {
	vc.mu.Lock()
	defer vc.mu.Unlock()
	h := vc.NsHist[name]
	if len(h) == 0 || h[len(h)-1] == nil {
		return nil, false
	}
	return h[len(h)-1], true
}

// Put creates or updates an object with a fresh generation id.
func (vc *VCluster) Put(ns, name string, lbls map[string]string, data map[string]any) ObjState {
	vc.mu.Lock()
	key := ns + "/" + name
	h := vc.History[key]
	exists := len(h) > 0 && !h[len(h)-1].Deleted
	st := ObjState{Gen: vc.nextGen(), Labels: copyLabels(lbls), Data: data}
	vc.History[key] = append(h, st)
	vc.mu.Unlock()
	obj := BuildCM(ns, name, st)
	var err error
	if exists {
		_, err = vc.Client.Dynamic().Resource(CMGVR).Namespace(ns).Update(context.TODO(), obj, metav1.UpdateOptions{})
	} else {
		_, err = vc.Client.Dynamic().Resource(CMGVR).Namespace(ns).Create(context.TODO(), obj, metav1.CreateOptions{})
	}
	if err != nil {
		panic(fmt.Sprintf("vcluster put %s: %v", key, err))
	}
	return st
}

// Touch re-writes the current state unchanged (same generation, same content).
func (vc *VCluster) Touch(ns, name string) bool {
	vc.mu.Lock()
	h := vc.History[ns+"/"+name]
	vc.mu.Unlock()
	if len(h) == 0 || h[len(h)-1].Deleted {
		return false
	}
	_, err := vc.Client.Dynamic().Resource(CMGVR).Namespace(ns).Update(context.TODO(), BuildCM(ns, name, h[len(h)-1]), metav1.UpdateOptions{})
	return err == nil
}

func (vc *VCluster) Delete(ns, name string) bool {
	vc.mu.Lock()
	key := ns + "/" + name
	h := vc.History[key]
	if len(h) == 0 || h[len(h)-1].Deleted {
		vc.mu.Unlock()
		return false
	}
	vc.History[key] = append(h, ObjState{Gen: vc.nextGen(), Deleted: true})
	vc.mu.Unlock()
	err := vc.Client.Dynamic().Resource(CMGVR).Namespace(ns).Delete(context.TODO(), name, metav1.DeleteOptions{})
	if err != nil {
		panic(fmt.Sprintf("vcluster delete %s: %v", key, err))
	}
	return true
}

// Current returns the live state of an object.
func (vc *VCluster) Current(key string) (ObjState, bool) {
	vc.mu.Lock()
	defer vc.mu.Unlock()
	h := vc.History[key]
	if len(h) == 0 || h[len(h)-1].Deleted {
		return ObjState{}, false
	}
	return h[len(h)-1], true
}

func (vc *VCluster) LiveKeys() []string {
	vc.mu.Lock()
	defer vc.mu.Unlock()
	var ks []string
	for k, h := range vc.History {
		if len(h) > 0 && !h[len(h)-1].Deleted {
			ks = append(ks, k)
		}
	}
	sort.Strings(ks)
	return ks
}

// StateByGen finds the state with a generation id.
func (vc *VCluster) StateByGen(key string, gen int) (ObjState, int, bool) {
	vc.mu.Lock()
	defer vc.mu.Unlock()
	for i, s := range vc.History[key] {
		if s.Gen == gen {
			return s, i, true
		}
	}
	return ObjState{}, -1, false
}

// KSel is the harness's own description of what a kubernetes binding selects.
type KSel struct {
	NsNames  []string          // namespace.nameSelector.matchNames
	NsLabels map[string]string // namespace.labelSelector.matchLabels
	Names    []string          // nameSelector.matchNames
	Labels   map[string]string // labelSelector.matchLabels
}

func subset(want, have map[string]string) bool {
	for k, v := range want {
		if have[k] != v {
			return false
		}
	}
	return true
}

// Matches is the independent implementation of "does this object (in this
// state) match the binding", against the current namespace labels.
func (vc *VCluster) Matches(sel KSel, ns, name string, st ObjState) bool {
	if st.Deleted {
		return false
	}
	if len(sel.NsLabels) > 0 {
		l, ok := vc.NsLabels(ns)
		if !ok || !subset(sel.NsLabels, l) {
			return false
		}
	} else if len(sel.NsNames) > 0 {
		found := false
		for _, n := range sel.NsNames {
			if n == ns {
				found = true
			}
		}
		if !found {
			return false
		}
	}
	if len(sel.Names) > 0 {
		found := false
		for _, n := range sel.Names {
			if n == name {
				found = true
			}
		}
		if !found {
			return false
		}
	}
	return subset(sel.Labels, st.Labels)
}

// MatchingSet returns key -> generation of every live object matching sel.
func (vc *VCluster) MatchingSet(sel KSel) map[string]int {
	res := map[string]int{}
	for _, k := range vc.LiveKeys() {
		st, _ := vc.Current(k)
		parts := strings.SplitN(k, "/", 2)
		if vc.Matches(sel, parts[0], parts[1], st) {
			res[k] = st.Gen
		}
	}
	return res
}

// OpenWatches returns the number of currently registered (not yet closed by the harness) watches.
func (vc *VCluster) OpenWatches() int {
	vc.mu.Lock()
	defer vc.mu.Unlock()
	return len(vc.watches)
}
