// Package vhk holds what the hook agent (cmd/vhook) and the harness share.
package vhk

import (
	"crypto/sha1"
	"encoding/hex"
	"strings"
)

type Directive struct {
	Exit    int  `json:"exit"`
	Kill    bool `json:"kill"`     // die by SIGKILL instead of exiting
	SleepMs int  `json:"sleep_ms"` // real sleep, widens overlap windows
	// SleepAfterMs: real sleep after the output files were written, before the process exits
	SleepAfterMs int    `json:"sleep_after_ms"`
	Metrics      string `json:"metrics"` // bytes appended to $METRICS_PATH
	Patch        string `json:"patch"`
	Admission    string `json:"admission"`
	Conversion   string `json:"conversion"` // literal bytes, or "@convert" / "@convert-drop-one"
	Stdout       string `json:"stdout"`
}

func Key(rel string) string {
	h := sha1.Sum([]byte(rel))
	s := strings.Map(func(r rune) rune {
		if r >= 'a' && r <= 'z' || r >= 'A' && r <= 'Z' || r >= '0' && r <= '9' || r == '-' || r == '_' || r == '.' {
			return r
		}
		return '_'
	}, rel)
	if len(s) > 40 {
		s = s[len(s)-40:]
	}
	return s + "-" + hex.EncodeToString(h[:4])
}
