#!/bin/sh
# Builds the harness (both flavours) once so that the first check starts warm.
set -e
cd "$(dirname "$0")/harness"
export GOFLAGS=-mod=mod GOPROXY=off GOSUMDB=off GOTOOLCHAIN=local
GO=$(command -v go1.26.8 || echo /opt/veriftools/go1.26.8/bin/go)
mkdir -p ../.build
sort -u go.sum /repo/go.sum -o go.sum
$GO build -o ../.build/vhook ./cmd/vhook
$GO test -c -tags verif -o ../.build/checks.plain.test ./checks
$GO test -c -tags verif -race -o ../.build/checks.race.test ./checks
echo setup ok
